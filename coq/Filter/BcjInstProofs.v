(* Filter/BcjInstProofs.v — the three facts of Filter/BcjStreamProofs.v (totality with a short
   untouched rest, compatibility with [feq], chunking) for the individual architectures. *)
From LzVerif Require Import Base.Bytes Filter.Bcj Filter.BcjStream Filter.BcjArithProofs
  Filter.BcjWordProofs Filter.BcjCodeProofs Filter.BcjStreamProofs.
Ltac Zify.zify_post_hook ::= Z.div_mod_to_equations.

(* ------------------------------------------------------------------------------------------ *)
(* filters given by a pure loop [go pos i buf = (converted prefix, rest)] *)
Record go_facts (go : Z -> Z -> list Z -> list Z * list Z) : Prop := {
  gf_len : forall pos i l o r, go pos i l = (o, r) -> (length o + length r = length l)%nat /\ (length r < 4)%nat;
  gf_rest : forall pos i l o r, go pos i l = (o, r) -> skipn (length o) l = r;
  gf_bytes : forall pos i l o r, go pos i l = (o, r) -> bytes_ok l = true -> bytes_ok o = true;
  gf_app : forall pos i A B oA rA, go pos i A = (oA, rA) ->
             go pos i (A ++ B) = let '(oB, rB) := go pos (i + zlen oA) (rA ++ B) in (oA ++ oB, rB);
  gf_ext : forall pos1 i1 pos2 i2 l, (forall j, pc32 pos1 (i1 + j) = pc32 pos2 (i2 + j)) ->
             go pos1 i1 l = go pos2 i2 l
}.

Lemma u64_add_idem x y : u64 (u64 (x + y)) = u64 (x + y).
Proof. unfold u64. apply Z.mod_mod. lia. Qed.

Lemma pure_code_facts a enc go :
  go_facts go -> (forall st buf, bcj_code a enc st buf = pure_code go st buf) -> code_facts a enc.
Proof.
  intros G Hc. split; [|split].
  - intros st buf Hb. rewrite Hc. unfold pure_code.
    destruct (go (f_pos st) 0 buf) as [o r] eqn:Eg.
    destruct (gf_len go G _ _ _ _ _ Eg) as [L1 L2].
    eexists _, o, r. split; [reflexivity|]. split; [exact (gf_rest go G _ _ _ _ _ Eg)|].
    split; [exact L1|]. split; [lia|]. exact (gf_bytes go G _ _ _ _ _ Eg Hb).
  - intros st1 st2 buf s1' o r [Hp Hm] Hb. rewrite !Hc. unfold pure_code. rewrite <- Hp.
    destruct (go (f_pos st1) 0 buf) as [o' r'] eqn:Eg. intros E. injection E as <- <- <-.
    eexists. split; [reflexivity|]. unfold feq. cbn [f_pos f_mask]. split; [reflexivity|exact Hm].
  - intros st A B st1 oA rA st2 oB rB HbA HbB. rewrite !Hc. unfold pure_code.
    destruct (go (f_pos st) 0 A) as [oA' rA'] eqn:EA. intros E. injection E as <- <- <-.
    cbn [f_pos f_mask].
    destruct (go (u64 (f_pos st + zlen oA')) 0 (rA' ++ B)) as [oB' rB'] eqn:EB.
    intros E. injection E as <- <- <-.
    rewrite (gf_app go G _ _ _ B _ _ EA).
    assert (Eext : go (f_pos st) (0 + zlen oA') (rA' ++ B) = go (u64 (f_pos st + zlen oA')) 0 (rA' ++ B)).
    { apply (gf_ext go G). intros j. rewrite pc32_shift. f_equal; lia. }
    rewrite Eext, EB.
    eexists. split; [reflexivity|]. unfold feq. cbn [f_pos f_mask]. split; [|reflexivity].
    rewrite zlen_app. unfold u64. rewrite Zplus_mod_idemp_l. f_equal. lia.
Qed.

(* --- go4 --- *)
Definition word4_bytes (f : word4) : Prop :=
  forall p b0 b1 b2 b3 c0 c1 c2 c3, byte b0 -> byte b1 -> byte b2 -> byte b3 ->
    f p b0 b1 b2 b3 = (c0, c1, c2, c3) -> byte c0 /\ byte c1 /\ byte c2 /\ byte c3.

Lemma go4_rest f pos i l o r : go4 f pos i l = (o, r) -> skipn (length o) l = r.
Proof.
  revert pos i o r. induction l as [l Hl | b0 b1 b2 b3 t IH] using list_ind4; intros pos i o r Hgo.
  - rewrite go4_short in Hgo by assumption. injection Hgo as <- <-. reflexivity.
  - cbn [go4] in Hgo.
    destruct (f (pc32 pos i) b0 b1 b2 b3) as [[[c0 c1] c2] c3].
    destruct (go4 f pos (i + 4) t) as [o' r'] eqn:Eg. injection Hgo as <- <-.
    cbn [length skipn]. exact (IH _ _ _ _ Eg).
Qed.

Lemma go4_bytes f : word4_bytes f -> forall pos i l o r, go4 f pos i l = (o, r) -> bytes_ok l = true -> bytes_ok o = true.
Proof.
  intros Hf pos i l. revert pos i.
  induction l as [l Hl | b0 b1 b2 b3 t IH] using list_ind4; intros pos i o r Hgo Hb.
  - rewrite go4_short in Hgo by assumption. injection Hgo as <- <-. reflexivity.
  - cbn [go4] in Hgo.
    destruct (f (pc32 pos i) b0 b1 b2 b3) as [[[c0 c1] c2] c3] eqn:Ef.
    destruct (go4 f pos (i + 4) t) as [o' r'] eqn:Eg. injection Hgo as <- <-.
    apply bytes_ok_cons in Hb; destruct Hb as [H0 Hb].
    apply bytes_ok_cons in Hb; destruct Hb as [H1 Hb].
    apply bytes_ok_cons in Hb; destruct Hb as [H2 Hb].
    apply bytes_ok_cons in Hb; destruct Hb as [H3 Hb].
    destruct (Hf _ _ _ _ _ _ _ _ _ H0 H1 H2 H3 Ef) as (G0 & G1 & G2 & G3).
    repeat (apply bytes_ok_cons; split; [assumption|]). exact (IH _ _ _ _ Eg Hb).
Qed.

Lemma go4_facts f : word4_bytes f -> go_facts (go4 f).
Proof.
  intros Hf. constructor.
  - intros pos i l o r. apply go4_length.
  - intros pos i l o r. apply go4_rest.
  - apply go4_bytes; assumption.
  - intros pos i A B oA rA. apply go4_app.
  - intros pos1 i1 pos2 i2 l. apply go4_pc_ext.
Qed.

Lemma word_bytes_byte d c0 c1 c2 c3 : word_bytes d = (c0, c1, c2, c3) -> byte c0 /\ byte c1 /\ byte c2 /\ byte c3.
Proof. unfold word_bytes. intros E. tuple_inj E. unfold byte. repeat split; apply u8_range. Qed.

Ltac byte_goal := unfold byte; repeat split; try apply u8_range; try (unfold byte in *; tauto).

Lemma arm_word_bytes enc : word4_bytes (arm_word enc).
Proof.
  intros p b0 b1 b2 b3 c0 c1 c2 c3 H0 H1 H2 H3. unfold arm_word.
  destruct (b3 =? 235); intros E; tuple_inj E; byte_goal.
Qed.

Lemma ppc_word_bytes enc : word4_bytes (ppc_word enc).
Proof.
  intros p b0 b1 b2 b3 c0 c1 c2 c3 H0 H1 H2 H3. unfold ppc_word.
  destruct (_ && _); intros E; tuple_inj E; byte_goal.
Qed.

Lemma sparc_word_bytes enc : word4_bytes (sparc_word enc).
Proof.
  intros p b0 b1 b2 b3 c0 c1 c2 c3 H0 H1 H2 H3. unfold sparc_word.
  destruct (_ || _); intros E; tuple_inj E; byte_goal.
Qed.

Lemma arm64_word_bytes enc : word4_bytes (arm64_word enc).
Proof.
  intros p b0 b1 b2 b3 c0 c1 c2 c3 H0 H1 H2 H3. unfold arm64_word. cbv zeta.
  repeat match goal with |- context [if ?c then _ else _] => destruct c end;
    intros E; try (apply word_bytes_byte in E; exact E); tuple_inj E; byte_goal.
Qed.

(* --- thumb --- *)
Lemma thumb_word_bytes enc p b0 b1 b2 b3 c0 c1 c2 c3 :
  thumb_word enc p b0 b1 b2 b3 = (c0, c1, c2, c3) -> byte c0 /\ byte c1 /\ byte c2 /\ byte c3.
Proof. unfold thumb_word. intros E; tuple_inj E; byte_goal. Qed.

Lemma thumb_go_rest enc l : forall pos i o r, thumb_go enc pos i l = (o, r) -> skipn (length o) l = r.
Proof.
  remember (length l) as n eqn:En. revert l En.
  induction n as [n IH] using lt_wf_ind; intros l En pos i o r Hgo.
  destruct (Nat.lt_ge_cases (length l) 4) as [Hs|Hs].
  - rewrite thumb_go_short in Hgo by assumption. injection Hgo as <- <-. reflexivity.
  - destruct l as [|b0 [|b1 [|b2 [|b3 t]]]]; try (cbn [length] in Hs; lia).
    rewrite thumb_go_step in Hgo. destruct (thumb_match b1 b3).
    + destruct (thumb_word enc (pc32 pos i) b0 b1 b2 b3) as [[[c0 c1] c2] c3].
      destruct (thumb_go enc pos (i + 4) t) as [o' r'] eqn:Eg. injection Hgo as <- <-.
      cbn [length skipn]. exact (IH (length t) ltac:(rewrite En; cbn [length]; lia) t eq_refl _ _ _ _ Eg).
    + destruct (thumb_go enc pos (i + 2) (b2 :: b3 :: t)) as [o' r'] eqn:Eg. injection Hgo as <- <-.
      cbn [length skipn].
      exact (IH (length (b2 :: b3 :: t)) ltac:(rewrite En; cbn [length]; lia) _ eq_refl _ _ _ _ Eg).
Qed.

Lemma thumb_go_bytes enc l : forall pos i o r, thumb_go enc pos i l = (o, r) -> bytes_ok l = true -> bytes_ok o = true.
Proof.
  remember (length l) as n eqn:En. revert l En.
  induction n as [n IH] using lt_wf_ind; intros l En pos i o r Hgo Hb.
  destruct (Nat.lt_ge_cases (length l) 4) as [Hs|Hs].
  - rewrite thumb_go_short in Hgo by assumption. injection Hgo as <- <-. reflexivity.
  - destruct l as [|b0 [|b1 [|b2 [|b3 t]]]]; try (cbn [length] in Hs; lia).
    rewrite thumb_go_step in Hgo.
    apply bytes_ok_cons in Hb; destruct Hb as [H0 Hb].
    apply bytes_ok_cons in Hb; destruct Hb as [H1 Hb2].
    destruct (thumb_match b1 b3).
    + destruct (thumb_word enc (pc32 pos i) b0 b1 b2 b3) as [[[c0 c1] c2] c3] eqn:Ew.
      destruct (thumb_go enc pos (i + 4) t) as [o' r'] eqn:Eg. injection Hgo as <- <-.
      apply bytes_ok_cons in Hb2; destruct Hb2 as [H2 Hb].
      apply bytes_ok_cons in Hb; destruct Hb as [H3 Hb].
      destruct (thumb_word_bytes _ _ _ _ _ _ _ _ _ _ Ew) as (G0 & G1 & G2 & G3).
      repeat (apply bytes_ok_cons; split; [assumption|]).
      exact (IH (length t) ltac:(rewrite En; cbn [length]; lia) t eq_refl _ _ _ _ Eg Hb).
    + destruct (thumb_go enc pos (i + 2) (b2 :: b3 :: t)) as [o' r'] eqn:Eg. injection Hgo as <- <-.
      repeat (apply bytes_ok_cons; split; [assumption|]).
      exact (IH (length (b2 :: b3 :: t)) ltac:(rewrite En; cbn [length]; lia) _ eq_refl _ _ _ _ Eg Hb2).
Qed.

Lemma thumb_go_facts enc : go_facts (thumb_go enc).
Proof.
  constructor.
  - intros pos i l o r. apply thumb_go_length.
  - intros pos i l o r. apply thumb_go_rest.
  - intros pos i l o r. apply thumb_go_bytes.
  - intros pos i A B oA rA. apply thumb_go_app.
  - intros pos1 i1 pos2 i2 l. apply thumb_go_pc_ext.
Qed.

Lemma code_facts_arm enc : code_facts ARM enc.
Proof. apply (pure_code_facts ARM enc (go4 (arm_word enc))); [apply go4_facts, arm_word_bytes|reflexivity]. Qed.
Lemma code_facts_arm64 enc : code_facts ARM64 enc.
Proof. apply (pure_code_facts ARM64 enc (go4 (arm64_word enc))); [apply go4_facts, arm64_word_bytes|reflexivity]. Qed.
Lemma code_facts_ppc enc : code_facts PPC enc.
Proof. apply (pure_code_facts PPC enc (go4 (ppc_word enc))); [apply go4_facts, ppc_word_bytes|reflexivity]. Qed.
Lemma code_facts_sparc enc : code_facts SPARC enc.
Proof. apply (pure_code_facts SPARC enc (go4 (sparc_word enc))); [apply go4_facts, sparc_word_bytes|reflexivity]. Qed.
Lemma code_facts_armthumb enc : code_facts ARMT enc.
Proof. apply (pure_code_facts ARMT enc (thumb_go enc)); [apply thumb_go_facts|reflexivity]. Qed.
