(* Filter/Bcj.v — model of the eight BCJ conversion functions
     src/filter/bcj/{x86,arm,ppc,sparc,ia64,riscv}.rs   (the eight code functions and constructors of BCJFilter)
   as they are AFTER repo-patches/11-bcj-wrapping-arith.patch (every position/address addition is a
   wrapping one, as in the reference implementation).  The code before that patch used the plain
   operators `+`/`-`, which panic in builds with overflow checks: see Filter/BcjDefects.v.
   Definitions only.

   Conventions.
   * A byte is a Z in [0,256); a buffer is a [list Z].
   * An i32 value is a Z in [-2^31, 2^31), a u32 value a Z in [0, 2^32), usize = u64.
     [s32]/[u32]/[u64]/[u8] are the casts / wrap-arounds and are written at every place where the
     Rust value can leave its range.  [Z.land]/[Z.lor]/[Z.lxor]/[Z.shiftr] on (possibly negative) Z
     are the two's-complement operations on infinitely sign-extended numbers, so `>>` on an i32 is
     [Z.shiftr] (arithmetic) and `x as u8` is [u8 x].
   * `fn code(&mut self, buf: &mut [u8]) -> usize` rewrites a prefix of [buf] in place and returns
     the length i of that prefix.  The model returns the new filter state, the rewritten prefix
     [out] (so i = length out) and the untouched remainder [rest]; the buffer after the call is
     [out ++ rest].  `self.pos = self.pos.wrapping_add(i)` is [u64 (pos + zlen out)].
   * The `while i <= end` loops are structural recursions on the not yet processed suffix of the
     buffer: "i <= len - K" is "at least K bytes are left", which is the shape of the pattern. *)
From LzVerif Require Export Base.Bytes.

Definition s32 (x : Z) : Z := (x + 2147483648) mod 4294967296 - 2147483648.
Definition u32 (x : Z) : Z := x mod 4294967296.
Definition u64 (x : Z) : Z := x mod 18446744073709551616.
Definition u8 (x : Z) : Z := x mod 256.

(* struct BCJFilter { is_encoder, pos: usize, prev_mask: u32, filter }; is_encoder is the [enc]
   argument of every function below. *)
Record fstate := mkF { f_pos : Z; f_mask : Z }.

(* (self.pos.wrapping_add(i)) as i32 *)
Definition pc32 (pos i : Z) : Z := s32 (u64 (pos + i)).

(* src.wrapping_add(p) / src.wrapping_sub(p) on i32, chosen by is_encoder *)
Definition addsub (enc : bool) (src p : Z) : Z := if enc then s32 (src + p) else s32 (src - p).

(* ------------------------------------------------------------------------------------------ *)
(* The common loop of the filters that look at aligned 4-byte words:
     while i <= end { <rewrite buf[i..i+4] using p = pos + i> ; i += 4 }                        *)
Definition word4 := Z -> Z -> Z -> Z -> Z -> Z * Z * Z * Z.

Fixpoint go4 (f : word4) (pos i : Z) (l : list Z) : list Z * list Z :=
  match l with
  | b0 :: b1 :: b2 :: b3 :: t =>
      let '(c0, c1, c2, c3) := f (pc32 pos i) b0 b1 b2 b3 in
      let '(o, r) := go4 f pos (i + 4) t in
      (c0 :: c1 :: c2 :: c3 :: o, r)
  | _ => ([], l)
  end.

(* ---------------------------------------- ARM -------------------------------------------- *)
Definition arm_word (enc : bool) (p b0 b1 b2 b3 : Z) : Z * Z * Z * Z :=
  if b3 =? 0xEB then
    let src := s32 (Z.shiftl (Z.lor (Z.lor (Z.shiftl b2 16) (Z.shiftl b1 8)) b0) 2) in
    let dest := addsub enc src p in
    let dest := Z.shiftr dest 2 in
    (u8 (Z.land dest 0xFF), u8 (Z.land (Z.shiftr dest 8) 0xFF), u8 (Z.land (Z.shiftr dest 16) 0xFF), b3)
  else (b0, b1, b2, b3).

(* -------------------------------------- ARM Thumb ---------------------------------------- *)
Definition thumb_match (b1 b3 : Z) : bool :=
  (Z.land b3 0xF8 =? 0xF8) && (Z.land b1 0xF8 =? 0xF0).

Definition thumb_word (enc : bool) (p b0 b1 b2 b3 : Z) : Z * Z * Z * Z :=
  let src := Z.lor (Z.lor (Z.lor (Z.shiftl (Z.land b1 0x07) 19) (Z.shiftl (Z.land b0 0xFF) 11))
                          (Z.shiftl (Z.land b3 0x07) 8)) (Z.land b2 0xFF) in
  let src := s32 (Z.shiftl src 1) in
  let dest := addsub enc src p in
  let dest := Z.shiftr dest 1 in
  (u8 (Z.shiftr dest 11),
   u8 (Z.lor 0xF0 (Z.land (Z.shiftr dest 19) 0x07)),
   u8 (Z.land dest 0xFF),
   u8 (Z.lor 0xF8 (Z.land (Z.shiftr dest 8) 0x07))).

(* while i <= end { if match { convert; i += 2 } i += 2 } *)
Fixpoint thumb_go (enc : bool) (pos i : Z) (l : list Z) : list Z * list Z :=
  match l with
  | b0 :: b1 :: l2 =>
      match l2 with
      | b2 :: b3 :: t =>
          if thumb_match b1 b3 then
            let '(c0, c1, c2, c3) := thumb_word enc (pc32 pos i) b0 b1 b2 b3 in
            let '(o, r) := thumb_go enc pos (i + 4) t in
            (c0 :: c1 :: c2 :: c3 :: o, r)
          else
            let '(o, r) := thumb_go enc pos (i + 2) l2 in
            (b0 :: b1 :: o, r)
      | _ => ([], l)
      end
  | _ => ([], l)
  end.

(* ---------------------------------------- ARM64 ------------------------------------------ *)
Definition word_bytes (dest : Z) : Z * Z * Z * Z :=
  (u8 (Z.land dest 0xFF), u8 (Z.land (Z.shiftr dest 8) 0xFF),
   u8 (Z.land (Z.shiftr dest 16) 0xFF), u8 (Z.land (Z.shiftr dest 24) 0xFF)).

Definition arm64_word (enc : bool) (p b0 b1 b2 b3 : Z) : Z * Z * Z * Z :=
  (* (b3 << 24) + (b2 << 16) + (b1 << 8) + b0 : the first shift wraps into the sign bit, the
     additions then cannot overflow *)
  let src := s32 (Z.shiftl b3 24) + Z.shiftl b2 16 + Z.shiftl b1 8 + b0 in
  let w1 :=
    if Z.land (Z.shiftr src 26) 0x3F =? 0x25 then
      let dest_adr := addsub enc src (Z.shiftr p 2) in
      let dest := Z.lor (Z.land dest_adr 0x03FFFFFF) (s32 (Z.shiftl 0x94 24)) in
      word_bytes dest
    else (b0, b1, b2, b3) in
  if Z.land (Z.shiftr src 24) 0x9F =? 0x90 then
    let addr := Z.lor (Z.land (Z.shiftr src 29) 3) (Z.land (Z.shiftr src 3) 0x001FFFFC) in
    if 0 =? Z.land (s32 (addr + 0x00020000)) 0x001C0000 then
      let dest := Z.lor (s32 (Z.shiftl 0x90 24)) (Z.land src 0x1F) in
      let addr := addsub enc addr (Z.shiftr p 12) in
      let dest := Z.lor dest (s32 (Z.shiftl (Z.land addr 3) 29)) in
      let dest := Z.lor dest (s32 (Z.shiftl (Z.land addr 0x0003FFFC) 3)) in
      let dest := Z.lor dest (Z.land (s32 (0 - Z.land addr 0x00020000)) 0x00E00000) in
      word_bytes dest
    else w1
  else w1.

(* --------------------------------------- PowerPC ----------------------------------------- *)
Definition ppc_word (enc : bool) (p b0 b1 b2 b3 : Z) : Z * Z * Z * Z :=
  if (Z.land b0 0xFC =? 0x48) && (Z.land b3 0x03 =? 0x01) then
    let src := Z.lor (Z.lor (Z.lor (Z.shiftl (Z.land b0 0x03) 24) (Z.shiftl (Z.land b1 0xFF) 16))
                            (Z.shiftl (Z.land b2 0xFF) 8)) (Z.land b3 0xFC) in
    let dest := addsub enc src p in
    (u8 (Z.lor 0x48 (Z.land (Z.shiftr dest 24) 0x03)),
     u8 (Z.shiftr dest 16),
     u8 (Z.shiftr dest 8),
     u8 (Z.lor (Z.land b3 0x03) dest))
  else (b0, b1, b2, b3).

(* ---------------------------------------- SPARC ------------------------------------------ *)
Definition sparc_word (enc : bool) (p b0 b1 b2 b3 : Z) : Z * Z * Z * Z :=
  if ((b0 =? 0x40) && (Z.land b1 0xC0 =? 0x00)) || ((b0 =? 0x7F) && (Z.land b1 0xC0 =? 0xC0)) then
    let src := Z.lor (Z.lor (Z.lor (Z.shiftl (Z.land b0 0xFF) 24) (Z.shiftl (Z.land b1 0xFF) 16))
                            (Z.shiftl (Z.land b2 0xFF) 8)) (Z.land b3 0xFF) in
    let src := s32 (Z.shiftl src 2) in
    let dest := addsub enc src p in
    let dest := Z.shiftr dest 2 in
    let dest := Z.lor (Z.lor (Z.land (s32 (Z.shiftl (0 - Z.land (Z.shiftr dest 22) 1) 22)) 0x3FFFFFFF)
                             (Z.land dest 0x3FFFFF)) 0x40000000 in
    (u8 (Z.shiftr dest 24), u8 (Z.shiftr dest 16), u8 (Z.shiftr dest 8), u8 dest)
  else (b0, b1, b2, b3).

(* ----------------------------------------- x86 ------------------------------------------- *)
Definition MASK_TO_ALLOWED_STATUS : list bool := [true; true; true; false; true; false; false; false].
Definition MASK_TO_BIT_NUMBER : list Z := [0; 1; 2; 2; 3; 3; 3; 3].
Definition test_86_ms_byte (b : Z) : bool := (b =? 0x00) || (b =? 0xFF).

(* u32 `m << k` with k an isize: panics (overflow check) unless 0 <= k < 32; in a build without
   overflow checks the amount is masked with 31.  The model says Panic; the proofs show it is
   never reached, so both builds agree. *)
Definition shl_u32 (m k : Z) : outcome Z :=
  if (k <? 0) || (31 <? k) then Panic 3 else Ok (u32 (Z.shiftl m k)).

(* the inner `loop { dest = src +- p; if prev_mask == 0 {break} ... src = dest ^ ((1 << (32 - index)) - 1) }` *)
Fixpoint x86_conv (fuel : nat) (enc : bool) (p prev_mask src : Z) : outcome Z :=
  match fuel with
  | O => Fuel
  | S fuel' =>
      let dest := addsub enc src p in
      if prev_mask =? 0 then Ok dest
      else
        match zth MASK_TO_BIT_NUMBER prev_mask with
        | None => Panic 2
        | Some bn =>
            let index := bn * 8 in                       (* u8 arithmetic: at most 24 *)
            if (24 <? index) || (index <? 1) then Panic 3  (* 24 - index underflows / shift by 32 *)
            else if negb (test_86_ms_byte (u8 (Z.land (Z.shiftr dest (24 - index)) 0xFF))) then Ok dest
            else x86_conv fuel' enc p prev_mask (s32 (Z.lxor dest (s32 (Z.shiftl 1 (32 - index)) - 1)))
        end
  end.

(* What one iteration of the outer loop does at index i, looking at buf[i..i+5] = b0..b4:
   XSkip: i += 1 with the new (prev_pos, prev_mask); XConv: the four operand bytes are rewritten
   and i += 5. *)
Inductive x86_act :=
| XSkip (prev_pos prev_mask : Z)
| XConv (prev_pos prev_mask c1 c2 c3 c4 : Z).

Definition x86_step (enc : bool) (pos i prev_pos prev_mask b0 b1 b2 b3 b4 : Z) : outcome x86_act :=
  if negb ((b0 =? 0xE9) || (b0 =? 0xE8)) then Ok (XSkip prev_pos prev_mask)
  else
    let d := i - prev_pos in                                  (* prev_pos = i as isize - prev_pos *)
    do pre <-
      (if negb (Z.land d (Z.lnot 3) =? 0) then Ok (false, 0)  (* prev_mask = 0 *)
       else
         do sh <- shl_u32 prev_mask (d - 1);
         let m := Z.land sh 7 in
         if m =? 0 then Ok (false, m)
         else
           match zth MASK_TO_ALLOWED_STATUS m, zth MASK_TO_BIT_NUMBER m with
           | Some allowed, Some bn =>
               if negb allowed then Ok (true, m)
               else
                 match zth [b0; b1; b2; b3; b4] (4 - bn) with   (* buf[i + 4 - bn] *)
                 | Some tb => Ok (test_86_ms_byte tb, m)
                 | None => Panic 4
                 end
           | _, _ => Panic 2
           end);
    let '(skip, m) := pre in
    if skip then Ok (XSkip i (u32 (Z.lor (Z.shiftl m 1) 1)))
    else if test_86_ms_byte b4 then
      let src := Z.lor (Z.lor (Z.lor b1 (Z.shiftl b2 8)) (Z.shiftl b3 16)) (s32 (Z.shiftl b4 24)) in
      do dest <- x86_conv 3 enc (pc32 pos i) m src;
      Ok (XConv i m (u8 dest) (u8 (Z.shiftr dest 8)) (u8 (Z.shiftr dest 16))
                (u8 (Z.lnot (Z.land (Z.shiftr dest 24) 1 - 1))))
    else Ok (XSkip i (u32 (Z.lor (Z.shiftl m 1) 1))).

Definition x86_res := (Z * Z * Z * list Z * list Z)%type.   (* i, prev_pos, prev_mask, out, rest *)
Definition x86_push (bs : list Z) (r : x86_res) : x86_res :=
  let '(i, pp, pm, o, rest) := r in (i, pp, pm, bs ++ o, rest).

Fixpoint x86_go (enc : bool) (pos i prev_pos prev_mask : Z) (l : list Z) : outcome x86_res :=
  match l with
  | b0 :: l1 =>
      match l1 with
      | b1 :: b2 :: b3 :: b4 :: t =>
          do act <- x86_step enc pos i prev_pos prev_mask b0 b1 b2 b3 b4;
          match act with
          | XSkip pp pm =>
              do r <- x86_go enc pos (i + 1) pp pm l1; Ok (x86_push [b0] r)
          | XConv pp pm c1 c2 c3 c4 =>
              do r <- x86_go enc pos (i + 5) pp pm t; Ok (x86_push [b0; c1; c2; c3; c4] r)
          end
      | _ => Ok (i, prev_pos, prev_mask, [], l)
      end
  | [] => Ok (i, prev_pos, prev_mask, [], l)
  end.

(* after the loop: prev_pos = i - prev_pos; prev_mask = if (prev_pos & !3) != 0 {0} else {prev_mask << (prev_pos - 1)} *)
Definition x86_epilogue (i prev_pos prev_mask : Z) : outcome Z :=
  let d := i - prev_pos in
  if negb (Z.land d (Z.lnot 3) =? 0) then Ok 0 else shl_u32 prev_mask (d - 1).

Definition x86_code (enc : bool) (st : fstate) (buf : list Z) : outcome (fstate * list Z * list Z) :=
  if zlen buf <? 5 then Ok (st, [], buf)
  else
    do r <- x86_go enc (f_pos st) 0 (-1) (f_mask st) buf;
    let '(i, pp, pm, o, rest) := r in
    do pm' <- x86_epilogue i pp pm;
    Ok (mkF (u64 (f_pos st + i)) pm', o, rest).

(* ---------------------------------------- IA-64 ------------------------------------------ *)
Definition IA64_BRANCH_TABLE : list Z :=
  [0; 0; 0; 0; 0; 0; 0; 0; 0; 0; 0; 0; 0; 0; 0; 0; 4; 4; 6; 6; 0; 0; 7; 7; 4; 4; 0; 0; 4; 4; 0; 0].

(* One slot of one 16-byte bundle [w]; pi = (self.pos as i32).wrapping_add(i as i32).
   The `if i + byte_pos + j < buf.len()` guards are always true (byte_pos + j <= 15 and the loop
   condition leaves 16 bytes); [firstn]/[skipn] on the 16-byte bundle read and write the six
   bytes buf[i + byte_pos .. i + byte_pos + 6]. *)
Definition ia64_slot (enc : bool) (pi : Z) (mask : Z) (w : list Z) (slot : Z) : list Z :=
  let bit_pos := 5 + slot * 41 in
  if Z.land (Z.shiftr mask slot) 1 =? 0 then w
  else
    let byte_pos := Z.shiftr bit_pos 3 in
    let bit_res := Z.land bit_pos 7 in
    let six := firstn 6 (skipn (Z.to_nat byte_pos) w) in
    let instr := le_value six in
    let instr_norm := Z.shiftr instr bit_res in
    if negb (Z.land (Z.shiftr instr_norm 37) 0x0F =? 0x05) || negb (Z.land (Z.shiftr instr_norm 9) 0x07 =? 0x00)
    then w
    else
      let src := Z.land (Z.shiftr instr_norm 13) 0x0FFFFF in
      let src := Z.lor src (Z.shiftl (Z.land (Z.shiftr instr_norm 36) 1) 20) in
      let src := s32 (Z.shiftl src 4) in
      let dest := addsub enc src pi in
      let dest := Z.shiftr (u32 dest) 4 in
      let instr_norm := Z.land instr_norm (u64 (Z.lnot (Z.shiftl 0x8FFFFF 13))) in
      let instr_norm := Z.lor instr_norm (Z.shiftl (Z.land dest 0x0FFFFF) 13) in
      let instr_norm := Z.lor instr_norm (u64 (Z.shiftl (Z.land dest 0x100000) (36 - 20))) in
      let instr := Z.land instr (Z.shiftl 1 bit_res - 1) in
      let instr := Z.lor instr (u64 (Z.shiftl instr_norm bit_res)) in
      firstn (Z.to_nat byte_pos) w ++ le_bytes 6 instr ++ skipn (Z.to_nat byte_pos + 6) w.

Definition ia64_bundle (enc : bool) (pi : Z) (w : list Z) : outcome (list Z) :=
  match w with
  | [] => Panic 4
  | b0 :: _ =>
      match zth IA64_BRANCH_TABLE (Z.land b0 0x1F) with
      | None => Panic 4
      | Some mask => Ok (ia64_slot enc pi mask (ia64_slot enc pi mask (ia64_slot enc pi mask w 0) 1) 2)
      end
  end.

Fixpoint ia64_go (enc : bool) (pos i : Z) (l : list Z) : outcome (list Z * list Z) :=
  match l with
  | b0 :: b1 :: b2 :: b3 :: b4 :: b5 :: b6 :: b7 :: b8 :: b9 :: b10 :: b11 :: b12 :: b13 :: b14 :: b15 :: t =>
      do w <- ia64_bundle enc (s32 (s32 pos + s32 i))
                [b0; b1; b2; b3; b4; b5; b6; b7; b8; b9; b10; b11; b12; b13; b14; b15];
      do r <- ia64_go enc pos (i + 16) t;
      let '(o, rest) := r in Ok (w ++ o, rest)
  | _ => Ok ([], l)
  end.

(* ---------------------------------------- RISC-V ----------------------------------------- *)
Definition le32 (b0 b1 b2 b3 : Z) : Z :=
  Z.lor (Z.lor (Z.lor b0 (Z.shiftl b1 8)) (Z.shiftl b2 16)) (Z.shiftl b3 24).

(* what one loop iteration does with buf[i..i+8] = b0..b7 *)
Inductive riscv_act :=
| RSkip (n : Z)                                  (* i += n (2, 4 or 6), nothing written *)
| RJal (c1 c2 c3 : Z)                            (* buf[i+1..i+4] rewritten, i += 4 *)
| RAuipc (c0 c1 c2 c3 c4 c5 c6 c7 : Z).          (* all eight bytes rewritten, i += 8 *)

Definition riscv_step (enc : bool) (pc : Z) (b0 b1 b2 b3 b4 b5 b6 b7 : Z) : riscv_act :=
  let inst := b0 in
  if inst =? 0xEF then
    if negb (Z.land b1 0x0D =? 0) then RSkip 2
    else if enc then
      let addr := Z.lor (Z.lor (Z.lor (Z.lor (Z.lor
                    (Z.shiftl (Z.land b1 0xF0) 8)
                    (Z.shiftl (Z.land b2 0x0F) 16))
                    (Z.shiftl (Z.land b2 0x10) 7))
                    (Z.shiftr (Z.land b2 0xE0) 4))
                    (Z.shiftl (Z.land b3 0x7F) 4))
                    (Z.shiftl (Z.land b3 0x80) 13) in
      let addr := s32 (s32 addr + pc) in
      RJal (u8 (Z.lor (Z.land b1 0x0F) (Z.land (Z.shiftr (u32 addr) 13) 0xF0)))
           (u8 (Z.shiftr addr 9))
           (u8 (Z.shiftr addr 1))
    else
      let addr := Z.lor (Z.lor (Z.shiftl (Z.land b1 0xF0) 13) (Z.shiftl b2 9)) (Z.shiftl b3 1) in
      let addr := s32 (s32 addr - pc) in
      RJal (u8 (Z.lor (Z.land b1 0x0F) (Z.land (Z.shiftr (u32 addr) 8) 0xF0)))
           (u8 (Z.lor (Z.lor (Z.land (Z.shiftr addr 16) 0x0F) (Z.land (Z.shiftr addr 7) 0x10))
                      (Z.land (s32 (Z.shiftl addr 4)) 0xE0)))
           (u8 (Z.lor (Z.land (Z.shiftr addr 4) 0x7F) (Z.land (Z.shiftr addr 13) 0x80)))
  else if Z.land inst 0x7F =? 0x17 then
    let inst_full := le32 inst b1 b2 b3 in
    if negb (Z.land inst_full 0xE80 =? 0) then
      (* AUIPC's rd doesn't equal x0 or x2 *)
      let inst2 := le32 b4 b5 b6 b7 in
      if negb (Z.land (Z.lxor (u32 (Z.shiftl inst_full 8)) inst2) 0xF8003 =? 3) then RSkip 6
      else
        let new_full := Z.lor (Z.lor 0x17 (Z.shiftl 2 7)) (u32 (Z.shiftl inst2 12)) in
        if enc then
          let addr := s32 (s32 (Z.land inst_full 0xFFFFF000) + Z.shiftr (s32 inst2) 20) in
          let addr := s32 (addr + pc) in
          RAuipc (u8 new_full) (u8 (Z.shiftr new_full 8)) (u8 (Z.shiftr new_full 16)) (u8 (Z.shiftr new_full 24))
                 (u8 (Z.shiftr addr 24)) (u8 (Z.shiftr addr 16)) (u8 (Z.shiftr addr 8)) (u8 addr)
        else
          let addr := s32 (s32 (Z.land inst_full 0xFFFFF000) + Z.shiftr inst2 20) in
          RAuipc (u8 new_full) (u8 (Z.shiftr new_full 8)) (u8 (Z.shiftr new_full 16)) (u8 (Z.shiftr new_full 24))
                 (u8 addr) (u8 (Z.shiftr addr 8)) (u8 (Z.shiftr addr 16)) (u8 (Z.shiftr addr 24))
    else
      (* AUIPC's rd equals x0 or x2 *)
      let fake_rs1 := Z.shiftr inst_full 27 in
      if Z.land (u32 (inst_full - 0x3100)) 0x3F80 >=? Z.land fake_rs1 0x1D then RSkip 4
      else if enc then
        let fake_addr := le32 b4 b5 b6 b7 in
        let fake_inst2 := Z.lor (Z.shiftr inst_full 12) (u32 (Z.shiftl fake_addr 20)) in
        let new_full := Z.lor (Z.lor 0x17 (Z.shiftl fake_rs1 7)) (Z.land fake_addr 0xFFFFF000) in
        RAuipc (u8 new_full) (u8 (Z.shiftr new_full 8)) (u8 (Z.shiftr new_full 16)) (u8 (Z.shiftr new_full 24))
               (u8 fake_inst2) (u8 (Z.shiftr fake_inst2 8)) (u8 (Z.shiftr fake_inst2 16)) (u8 (Z.shiftr fake_inst2 24))
      else
        let addr := s32 (le32 b7 b6 b5 b4) in                       (* i32::from_be_bytes *)
        let addr := s32 (addr - pc) in
        let inst2_rs1 := Z.shiftr inst_full 27 in
        let inst2 := Z.lor (Z.shiftr inst_full 12) (u32 (Z.shiftl (u32 addr) 20)) in
        let new_full := Z.lor (Z.lor 0x17 (Z.shiftl inst2_rs1 7)) (Z.land (u32 (s32 (addr + 0x800))) 0xFFFFF000) in
        RAuipc (u8 new_full) (u8 (Z.shiftr new_full 8)) (u8 (Z.shiftr new_full 16)) (u8 (Z.shiftr new_full 24))
               (u8 inst2) (u8 (Z.shiftr inst2 8)) (u8 (Z.shiftr inst2 16)) (u8 (Z.shiftr inst2 24))
  else RSkip 2.

Fixpoint riscv_go (enc : bool) (pos i : Z) (l : list Z) : outcome (list Z * list Z) :=
  match l with
  | b0 :: b1 :: l2 =>
    match l2 with
    | b2 :: b3 :: l4 =>
      match l4 with
      | b4 :: b5 :: l6 =>
        match l6 with
        | b6 :: b7 :: t =>
            match riscv_step enc (pc32 pos i) b0 b1 b2 b3 b4 b5 b6 b7 with
            | RSkip n =>
                if n =? 2 then do r <- riscv_go enc pos (i + 2) l2; let '(o, rest) := r in Ok (b0 :: b1 :: o, rest)
                else if n =? 4 then do r <- riscv_go enc pos (i + 4) l4; let '(o, rest) := r in Ok (b0 :: b1 :: b2 :: b3 :: o, rest)
                else if n =? 6 then do r <- riscv_go enc pos (i + 6) l6; let '(o, rest) := r in Ok (b0 :: b1 :: b2 :: b3 :: b4 :: b5 :: o, rest)
                else Panic 9
            | RJal c1 c2 c3 =>
                do r <- riscv_go enc pos (i + 4) l4; let '(o, rest) := r in Ok (b0 :: c1 :: c2 :: c3 :: o, rest)
            | RAuipc c0 c1 c2 c3 c4 c5 c6 c7 =>
                do r <- riscv_go enc pos (i + 8) t; let '(o, rest) := r in
                Ok (c0 :: c1 :: c2 :: c3 :: c4 :: c5 :: c6 :: c7 :: o, rest)
            end
        | _ => Ok ([], l)
        end
      | _ => Ok ([], l)
      end
    | _ => Ok ([], l)
    end
  | _ => Ok ([], l)
  end.

(* ------------------------------------------------------------------------------------------ *)
(* The eight filters behind one interface. *)
Inductive arch := X86 | ARM | ARMT | ARM64 | PPC | SPARC | IA64 | RISCV.

(* new_x86: pos = start_pos.wrapping_add(5); new_arm: 8; new_arm_thumb: 4; the others: start_pos *)
Definition bcj_start_add (a : arch) : Z :=
  match a with X86 => 5 | ARM => 8 | ARMT => 4 | _ => 0 end.
Definition bcj_init (a : arch) (start_pos : Z) : fstate :=
  mkF (u64 (start_pos + bcj_start_add a)) 0.

(* alignment of the start offset the format asks for (xz-file-format 5.3.2) *)
Definition bcj_align (a : arch) : Z :=
  match a with X86 => 1 | ARM => 4 | ARMT => 2 | ARM64 => 4 | PPC => 4 | SPARC => 4 | IA64 => 16 | RISCV => 2 end.

Definition pure_code (go : Z -> Z -> list Z -> list Z * list Z) (st : fstate) (buf : list Z)
  : outcome (fstate * list Z * list Z) :=
  let '(o, rest) := go (f_pos st) 0 buf in
  Ok (mkF (u64 (f_pos st + zlen o)) (f_mask st), o, rest).

Definition out_code (go : Z -> Z -> list Z -> outcome (list Z * list Z)) (st : fstate) (buf : list Z)
  : outcome (fstate * list Z * list Z) :=
  do r <- go (f_pos st) 0 buf;
  let '(o, rest) := r in
  Ok (mkF (u64 (f_pos st + zlen o)) (f_mask st), o, rest).

(* BCJFilter::code *)
Definition bcj_code (a : arch) (enc : bool) (st : fstate) (buf : list Z)
  : outcome (fstate * list Z * list Z) :=
  match a with
  | X86 => x86_code enc st buf
  | ARM => pure_code (go4 (arm_word enc)) st buf
  | ARMT => pure_code (thumb_go enc) st buf
  | ARM64 => pure_code (go4 (arm64_word enc)) st buf
  | PPC => pure_code (go4 (ppc_word enc)) st buf
  | SPARC => pure_code (go4 (sparc_word enc)) st buf
  | IA64 => out_code (ia64_go enc) st buf
  | RISCV => out_code (riscv_go enc) st buf
  end.
