(* Filter/Bcj2Enc.v — the BCJ2 format as a specification encoder (the crate has no BCJ2 encoder).
   This is 7-Zip's Bcj2Enc (C/Bcj2Enc.c, finish mode END_STREAM) reduced to what determines the four
   streams; the one thing left open is the encoder's CHOICE which candidates to convert (7-Zip decides
   by file size / relative limit heuristics): it is a parameter, a list of booleans consumed one per
   candidate, so that statements about "any correctly encoded four-stream input" quantify over all
   choices.  Definitions only.

   The format.  The original bytes are scanned with [prev] = the previous original byte (0 at the
   start).  A byte b is a CANDIDATE when it is E8 or E9, or when it is 80..8F and prev = 0F.
   Every byte that is not part of a converted operand goes to the MAIN stream.  For every candidate
   one bit is range-coded with the probability [2 + prev] (E8), [1] (E9) or [0] (0F 8x):
     0 = not converted, scanning goes on with the next byte (the operand bytes stay in MAIN and are
         scanned like any others);
     1 = converted: only possible when four more bytes follow.  They are read as a little-endian
         u32 [rel]; abs = rel + ip (mod 2^32), ip = offset of the byte behind the operand (mod 2^32);
         abs is appended big-endian to the CALL stream (E8) or the JUMP stream (E9, 0F 8x); the
         four operand bytes are in no other stream; scanning goes on behind them with prev = the
         last operand byte.
   The range coder is the LZMA one (Codec/Range.v: 11-bit probabilities starting at 1024, shift 5,
   range normalised to >= 2^24, five bytes flushed at the end); the RC stream is its output. *)
From LzVerif Require Export Base.Bytes Codec.Range Codec.LzmaEnc.

Definition bcj2_is_cand (prev b : Z) : bool :=
  (Z.land b 254 =? 232) || ((prev =? 15) && (Z.land b 240 =? 128)).

Definition bcj2_spec_index (prev b : Z) : Z :=
  if b =? 232 then 2 + prev else if b =? 233 then 1 else 0.

Inductive b2item :=
| B2Lit (b : Z)                                                   (* not a candidate *)
| B2Cand (b idx : Z)                                              (* candidate, bit 0 *)
| B2Conv (b idx : Z) (is_call : bool) (r0 r1 r2 r3 : Z) (abs : Z). (* candidate, bit 1, operand r0..r3 *)

(* little-endian value of four bytes *)
Definition le32 (r0 r1 r2 r3 : Z) : Z := r0 + 256 * (r1 + 256 * (r2 + 256 * r3)).
(* big-endian bytes of a u32 *)
Definition be32 (v : Z) : list Z :=
  [Z.shiftr v 24 mod 256; Z.shiftr v 16 mod 256; Z.shiftr v 8 mod 256; v mod 256].

(* the next decision; an exhausted list means "do not convert" *)
Definition next_decision (ds : list bool) : bool * list bool :=
  match ds with [] => (false, []) | x :: t => (x, t) end.

Fixpoint bcj2_parse (data : list Z) (prev ip : Z) (ds : list bool) : list b2item :=
  match data with
  | [] => []
  | b :: rest =>
      if bcj2_is_cand prev b then
        let idx := bcj2_spec_index prev b in
        let '(dcs, ds') := next_decision ds in
        match rest with
        | r0 :: r1 :: r2 :: r3 :: rest4 =>
            if dcs then
              let ip' := wrap32 (ip + 5) in
              B2Conv b idx (b =? 232) r0 r1 r2 r3 (wrap32 (le32 r0 r1 r2 r3 + ip')) :: bcj2_parse rest4 r3 ip' ds'
            else B2Cand b idx :: bcj2_parse rest b (wrap32 (ip + 1)) ds'
        | _ => B2Cand b idx :: bcj2_parse rest b (wrap32 (ip + 1)) ds'
        end
      else B2Lit b :: bcj2_parse rest b (wrap32 (ip + 1)) ds
  end.

Definition b2_main1 (it : b2item) : Z :=
  match it with B2Lit b => b | B2Cand b _ => b | B2Conv b _ _ _ _ _ _ _ => b end.
Definition b2_orig1 (it : b2item) : list Z :=
  match it with B2Lit b => [b] | B2Cand b _ => [b] | B2Conv b _ _ r0 r1 r2 r3 _ => [b; r0; r1; r2; r3] end.
Definition b2_call1 (it : b2item) : list Z :=
  match it with B2Conv _ _ true _ _ _ _ a => be32 a | _ => [] end.
Definition b2_jump1 (it : b2item) : list Z :=
  match it with B2Conv _ _ false _ _ _ _ a => be32 a | _ => [] end.
Definition b2_event1 (it : b2item) : list event :=
  match it with B2Lit _ => [] | B2Cand _ idx => [EBit idx 0] | B2Conv _ idx _ _ _ _ _ _ => [EBit idx 1] end.

Definition b2_main (its : list b2item) : list Z := map b2_main1 its.
Definition b2_orig (its : list b2item) : list Z := flat_map b2_orig1 its.
Definition b2_call (its : list b2item) : list Z := flat_map b2_call1 its.
Definition b2_jump (its : list b2item) : list Z := flat_map b2_jump1 its.
Definition b2_events (its : list b2item) : list event := flat_map b2_event1 its.

(* the RC stream: all bits range-coded from the initial state, then the five-byte flush *)
Definition bcj2_rc_bytes (evs : list event) : list Z :=
  renc_bytes (renc_finish (fst (renc_events renc_init PLeaf evs))).

(* the four streams: MAIN, CALL, JUMP, RC *)
Definition bcj2_encode (data : list Z) (ds : list bool) : list Z * list Z * list Z * list Z :=
  let its := bcj2_parse data 0 0 ds in
  (b2_main its, b2_call its, b2_jump its, bcj2_rc_bytes (b2_events its)).

(* number of candidates of a data stream under a decision list (for generators and examples) *)
Definition bcj2_candidates (data : list Z) (ds : list bool) : nat :=
  length (b2_events (bcj2_parse data 0 0 ds)).
