(* Filter/BcjStreamProofs.v — BCJReader and BCJWriter against the stream-level meaning of a filter.
   Generic part: everything is derived from three facts about one architecture's `code`
   (totality with a short untouched rest, compatibility with an equivalence of filter states,
   chunking), collected in [code_facts]; the per-architecture instances are in
   Filter/BcjInstProofs.v. *)
From LzVerif Require Import Base.Bytes Filter.Bcj Filter.BcjStream Filter.BcjArithProofs
  Filter.BcjWordProofs Filter.BcjCodeProofs.
Ltac Zify.zify_post_hook ::= Z.div_mod_to_equations.

(* ------------------------------------------------------------------------------------------ *)
(* facts about lists *)
Lemma bytes_ok_app l1 l2 : bytes_ok (l1 ++ l2) = true <-> bytes_ok l1 = true /\ bytes_ok l2 = true.
Proof. unfold bytes_ok. rewrite forallb_app, andb_true_iff. tauto. Qed.

Lemma bytes_ok_firstn n l : bytes_ok l = true -> bytes_ok (firstn n l) = true.
Proof.
  intros H. rewrite <- (firstn_skipn n l) in H. apply bytes_ok_app in H. tauto.
Qed.
Lemma bytes_ok_skipn n l : bytes_ok l = true -> bytes_ok (skipn n l) = true.
Proof.
  intros H. rewrite <- (firstn_skipn n l) in H. apply bytes_ok_app in H. tauto.
Qed.

Lemma firstn_add {A} (n m : nat) (l : list A) :
  firstn (n + m) l = firstn n l ++ firstn m (skipn n l).
Proof.
  revert l; induction n as [|n IH]; intros l; [reflexivity|].
  destruct l as [|x t]; [cbn; rewrite firstn_nil; reflexivity|].
  cbn [Nat.add firstn skipn app]. rewrite IH. reflexivity.
Qed.

Lemma skipn_skipn' {A} (n m : nat) (l : list A) : skipn n (skipn m l) = skipn (m + n) l.
Proof.
  revert l; induction m as [|m IH]; intros l; [reflexivity|].
  destruct l as [|x t]; [cbn; rewrite skipn_nil; reflexivity|]. cbn [Nat.add skipn]. apply IH.
Qed.

Lemma zlen_firstn {A} (n : nat) (l : list A) : (n <= length l)%nat -> zlen (firstn n l) = Z.of_nat n.
Proof. intros H. unfold zlen. rewrite firstn_length. f_equal. lia. Qed.

Lemma zlen_skipn {A} (n : nat) (l : list A) : zlen (skipn n l) = zlen l - Z.of_nat (Nat.min n (length l)).
Proof. unfold zlen. rewrite skipn_length. lia. Qed.

(* ------------------------------------------------------------------------------------------ *)
(* equivalence of filter states: same position, same low three bits of prev_mask (all that any
   later step of the x86 filter looks at; the other filters do not look at prev_mask at all) *)
Definition feq (s1 s2 : fstate) : Prop := f_pos s1 = f_pos s2 /\ f_mask s1 mod 8 = f_mask s2 mod 8.

Lemma feq_refl s : feq s s.
Proof. split; reflexivity. Qed.
Lemma feq_sym s1 s2 : feq s1 s2 -> feq s2 s1.
Proof. intros [H1 H2]. split; congruence. Qed.
Lemma feq_trans s1 s2 s3 : feq s1 s2 -> feq s2 s3 -> feq s1 s3.
Proof. intros [H1 H2] [H3 H4]. split; congruence. Qed.

(* the three facts *)
Definition code_total (a : arch) (enc : bool) : Prop :=
  forall st buf, bytes_ok buf = true ->
    exists st' o r, bcj_code a enc st buf = Ok (st', o, r) /\
      skipn (length o) buf = r /\ (length o + length r = length buf)%nat /\ (length r < 16)%nat /\
      bytes_ok o = true.

Definition code_respects (a : arch) (enc : bool) : Prop :=
  forall st1 st2 buf s1' o r, feq st1 st2 -> bytes_ok buf = true ->
    bcj_code a enc st1 buf = Ok (s1', o, r) ->
    exists s2', bcj_code a enc st2 buf = Ok (s2', o, r) /\ feq s1' s2'.

Definition code_chunks (a : arch) (enc : bool) : Prop :=
  forall st A B st1 oA rA st2 oB rB, bytes_ok A = true -> bytes_ok B = true ->
    bcj_code a enc st A = Ok (st1, oA, rA) ->
    bcj_code a enc st1 (rA ++ B) = Ok (st2, oB, rB) ->
    exists st2', bcj_code a enc st (A ++ B) = Ok (st2', oA ++ oB, rB) /\ feq st2 st2'.

Definition code_facts (a : arch) (enc : bool) : Prop :=
  code_total a enc /\ code_respects a enc /\ code_chunks a enc.

(* ------------------------------------------------------------------------------------------ *)
Section Generic.
Variable a : arch.
Variable enc : bool.
Hypothesis Htot : code_total a enc.
Hypothesis Hresp : code_respects a enc.
Hypothesis Hchunk : code_chunks a enc.

(* the converted prefix only grows when more data is appended; appending nothing changes nothing *)
Lemma code_nil_rest st A st1 oA rA : bytes_ok A = true ->
  bcj_code a enc st A = Ok (st1, oA, rA) ->
  exists st2, bcj_code a enc st1 rA = Ok (st2, [], rA) /\ feq st2 st1.
Proof.
  intros HbA HA.
  destruct (Htot st A HbA) as (s' & o & r & E & Hr & Hl & _ & Hbo).
  rewrite HA in E. injection E as <- <- <-.
  assert (HbrA : bytes_ok rA = true) by (rewrite <- Hr; apply bytes_ok_skipn; assumption).
  destruct (Htot st1 rA HbrA) as (st2 & oB & rB & EB & HrB & HlB & _ & _).
  assert (EB' : bcj_code a enc st1 (rA ++ []) = Ok (st2, oB, rB)) by (rewrite app_nil_r; exact EB).
  destruct (Hchunk st A [] st1 oA rA st2 oB rB HbA eq_refl HA EB') as (st2' & E2 & Hf).
  rewrite app_nil_r in E2. rewrite HA in E2. injection E2 as E2a E2b E2c.
  assert (oB = []).
  { apply (f_equal (@length Z)) in E2b. rewrite app_length in E2b. destruct oB; [reflexivity|cbn in E2b; lia]. }
  subst oB rB. exists st2. split; [exact EB|]. rewrite E2a. exact Hf.
Qed.

End Generic.

(* ---------------------------------------- writer ---------------------------------------- *)
Section Writer.
Variable a : arch.
Hypothesis Htot : code_total a true.
Hypothesis Hchunk : code_chunks a true.

(* The write-call histories in which BCJWriter behaves like a stream filter: no call leaves an
   unconverted tail while more data follows.  The complement is the known finding
   bcj-writer-midstream-tail. *)
Fixpoint no_midstream_tail (f : fstate) (parts : list (list Z)) : Prop :=
  match parts with
  | [] => True
  | p :: ps =>
      match bcj_code a true f p with
      | Ok (f', o, rest) => (rest = [] \/ concat ps = []) /\ no_midstream_tail f' ps
      | _ => False
      end
  end.

Lemma code_empty f : exists f', bcj_code a true f [] = Ok (f', [], []).
Proof.
  destruct (Htot f [] eq_refl) as (f' & o & r & E & _ & Hl & _).
  cbn [length] in Hl. destruct o; [|cbn in Hl; lia]. destruct r; [|cbn in Hl; lia]. eauto.
Qed.

Lemma write_calls_empty ps : forall f, concat ps = [] -> exists f', bcj_write_calls a f ps = Ok (f', []).
Proof.
  induction ps as [|p ps IH]; intros f Hc; [eexists; reflexivity|].
  cbn [concat] in Hc. apply app_eq_nil in Hc. destruct Hc as [-> Hc].
  destruct (code_empty f) as (f' & E). destruct (IH f' Hc) as (f'' & E2).
  exists f''. cbn [bcj_write_calls]. unfold bcj_write. rewrite E. cbn [obind app]. rewrite E2. reflexivity.
Qed.

Theorem writer_partition_known parts : forall f,
  bytes_ok (concat parts) = true -> no_midstream_tail f parts ->
  exists f1 f2 o r, bcj_write_calls a f parts = Ok (f1, o ++ r) /\
                    bcj_code a true f (concat parts) = Ok (f2, o, r).
Proof.
  induction parts as [|p ps IH]; intros f Hb Hn.
  - destruct (code_empty f) as (f' & E). exists f, f', [], []. split; [reflexivity|exact E].
  - cbn [concat] in Hb. apply bytes_ok_app in Hb. destruct Hb as [Hbp Hbs].
    cbn [no_midstream_tail] in Hn.
    destruct (bcj_code a true f p) as [[[f' o] rest]| | |] eqn:Ep; try contradiction.
    destruct Hn as [Hcase Hn].
    cbn [bcj_write_calls concat]. unfold bcj_write. rewrite Ep. cbn [obind].
    destruct Hcase as [Hr|Hc].
    + subst rest.
      destruct (IH f' Hbs Hn) as (f1 & f2 & o2 & r2 & Ew & Ec).
      rewrite Ew. cbn [obind].
      assert (Ec' : bcj_code a true f' ([] ++ concat ps) = Ok (f2, o2, r2)) by exact Ec.
      destruct (Hchunk f p (concat ps) f' o [] f2 o2 r2 Hbp Hbs Ep Ec') as (f2' & E2 & _).
      exists f1, f2', (o ++ o2), r2. split; [|exact E2].
      rewrite app_nil_r, app_assoc. reflexivity.
    + destruct (write_calls_empty ps f' Hc) as (f'' & Ew). rewrite Ew. cbn [obind].
      rewrite Hc, !app_nil_r. exists f'', f', o, rest. split; [reflexivity|exact Ep].
Qed.

End Writer.

(* ---------------------------------------- reader ---------------------------------------- *)
Definition all_nonempty (parts : list (list Z)) : Prop := Forall (fun p => p <> []) parts.

Lemma inner_read_spec parts n data inner' :
  all_nonempty parts -> 0 < n -> inner_read parts n = (data, inner') ->
  concat parts = data ++ concat inner' /\ zlen data <= n /\ all_nonempty inner' /\
  (data = [] -> parts = [] /\ inner' = []).
Proof.
  intros Hne Hn H. unfold inner_read in H.
  destruct (Z.leb_spec n 0); [lia|].
  destruct parts as [|p ps].
  - injection H as <- <-. split; [reflexivity|]. split; [cbn; lia|]. split; [constructor|]. auto.
  - inversion Hne as [|? ? Hp Hps]; subst.
    destruct (Z.leb_spec (zlen p) n) as [Hle|Hgt].
    + injection H as <- <-. split; [reflexivity|]. split; [assumption|]. split; [assumption|].
      intros ->. congruence.
    + injection H as <- <-.
      assert (Hlt : (Z.to_nat n < length p)%nat) by (unfold zlen in Hgt; lia).
      split; [cbn [concat]; rewrite app_assoc, firstn_skipn; reflexivity|].
      split; [unfold zlen; rewrite firstn_length; lia|].
      split.
      * constructor; [|assumption]. intros E. apply (f_equal (@length Z)) in E.
        rewrite skipn_length in E. cbn in E. lia.
      * intros E. apply (f_equal (@length Z)) in E. rewrite firstn_length in E. cbn in E. lia.
Qed.

Lemma firstn_firstn_app {A} (n m : nat) (l X : list A) :
  (n <= m)%nat -> (m <= length l)%nat -> firstn n (firstn m l ++ X) = firstn n l.
Proof.
  intros Hnm Hml. rewrite firstn_app, firstn_firstn.
  rewrite firstn_length. replace (n - Nat.min m (length l))%nat with 0%nat by lia.
  cbn [firstn]. rewrite app_nil_r. f_equal. lia.
Qed.

Lemma take_more {A} (pre X : list A) (n : nat) (G : list A) :
  G = pre ++ X -> (length pre <= n)%nat ->
  firstn n G = pre ++ firstn (n - length pre) (skipn (length pre) G).
Proof.
  intros -> Hn. replace n with (length pre + (n - length pre))%nat at 1 by lia.
  rewrite firstn_add. f_equal. rewrite firstn_app, firstn_all, Nat.sub_diag. cbn [firstn]. apply app_nil_r.
Qed.

Section Reader.
Variable a : arch.
Hypothesis Htot : code_total a false.
Hypothesis Hresp : code_respects a false.
Hypothesis Hchunk : code_chunks a false.

Variable st0 : fstate.          (* the filter as constructed *)
Variable S : list Z.            (* the whole inner stream *)
Variables (stS : fstate) (oS rS : list Z).
Hypothesis HbS : bytes_ok S = true.
Hypothesis HS : bcj_code a false st0 S = Ok (stS, oS, rS).

(* what the reader must deliver: code applied to the whole stream, the tail passed through *)
Let F : list Z := oS ++ rS.

Definition rinv (rs : rstate) (delivered D : list Z) (inner : list (list Z)) : Prop :=
  exists stD oD rD,
    bcj_code a false st0 D = Ok (stD, oD, rD) /\ feq stD (r_filter rs) /\
    zlen (r_live rs) = r_filtered rs + r_unfiltered rs /\ 0 <= r_filtered rs /\ 0 <= r_unfiltered rs /\
    0 <= r_pos rs /\ r_pos rs + r_filtered rs + r_unfiltered rs <= 4096 /\
    S = D ++ concat inner /\
    if r_end rs then inner = [] /\ r_unfiltered rs = 0 /\ delivered ++ r_live rs = oD ++ rD
    else delivered ++ firstn (Z.to_nat (r_filtered rs)) (r_live rs) = oD /\
         skipn (Z.to_nat (r_filtered rs)) (r_live rs) = rD.

(* the converted prefix of a prefix of the stream is a prefix of the final output *)
Lemma prefix_of_F D inner stD oD rD :
  S = D ++ concat inner -> bcj_code a false st0 D = Ok (stD, oD, rD) ->
  exists X, F = oD ++ X /\ (inner = [] -> X = rD).
Proof.
  intros ES ED.
  assert (HbD : bytes_ok D = true /\ bytes_ok (concat inner) = true)
    by (apply bytes_ok_app; rewrite <- ES; exact HbS).
  destruct HbD as [HbD HbI].
  destruct (Htot st0 D HbD) as (s' & o & r & E & Hr & _ & _ & _).
  rewrite ED in E. injection E as <- <- <-.
  assert (HbrD : bytes_ok (rD ++ concat inner) = true).
  { apply bytes_ok_app. split; [rewrite <- Hr; apply bytes_ok_skipn; exact HbD|exact HbI]. }
  destruct (Htot stD (rD ++ concat inner) HbrD) as (st2 & oB & rB & EB & HrB & HlB & _ & _).
  destruct (Hchunk st0 D (concat inner) stD oD rD st2 oB rB HbD HbI ED EB) as (st2' & E2 & _).
  rewrite <- ES, HS in E2. injection E2 as _ E2b E2c.
  exists (oB ++ rB). unfold F. rewrite E2b, E2c, app_assoc. split; [reflexivity|].
  intros ->. cbn [concat] in *. rewrite app_nil_r in EB.
  destruct (code_nil_rest a false Htot Hchunk st0 D stD oD rD HbD ED) as (st3 & E3 & _).
  rewrite EB in E3. injection E3 as _ -> ->. reflexivity.
Qed.

Lemma read_loop_ok : forall fuel rs inner len delivered D,
  rinv rs delivered D inner -> all_nonempty inner -> 0 < len ->
  (length (concat inner) + (if r_end rs then 0 else 1) < fuel)%nat ->
  exists out rs' inner' D',
    bcj_read_loop fuel a rs inner len = Ok (out, rs', inner') /\
    out = firstn (Z.to_nat len) (skipn (length delivered) F) /\
    rinv rs' (delivered ++ out) D' inner' /\ all_nonempty inner' /\
    (length (concat inner') <= length (concat inner))%nat.
Proof.
  induction fuel as [|fuel IH]; intros rs inner len delivered D Hinv Hne Hlen Hfuel; [lia|].
  destruct Hinv as (stD & oD & rD & ED & Hfeq & Hzl & Hf0 & Hu0 & Hp0 & Hcap & ES & Hcase).
  destruct (prefix_of_F D inner stD oD rD ES ED) as (X & EF & EX).
  destruct rs as [flt pos filtered unfiltered live endr]. cbn [r_filter r_pos r_filtered r_unfiltered r_live r_end] in *.
  cbn [bcj_read_loop r_filter r_pos r_filtered r_unfiltered r_live r_end].
  set (copy := if 0 <? filtered then Z.min filtered len else 0).
  assert (Hcopy : copy = Z.min filtered len).
  { unfold copy. destruct (Z.ltb_spec 0 filtered); lia. }
  assert (Hlive_len : length live = Z.to_nat (filtered + unfiltered)) by (unfold zlen in Hzl; lia).
  set (pos' := if pos + copy + (filtered - copy) + unfiltered =? FILTER_BUF_SIZE then 0 else pos + copy).
  assert (Hpos' : 0 <= pos' /\ pos' + (filtered - copy) + unfiltered <= 4096).
  { unfold pos', FILTER_BUF_SIZE. destruct (Z.eqb_spec (pos + copy + (filtered - copy) + unfiltered) 4096); lia. }
  destruct endr.
  - (* end of the inner stream already seen: everything left is in [live] *)
    destruct Hcase as (Hin & Hu & Hdl). subst inner unfiltered.
    rewrite orb_true_r.
    exists (firstn (Z.to_nat copy) live), (mkR flt pos' (filtered - copy) 0 (skipn (Z.to_nat copy) live) true), [], D.
    split; [reflexivity|].
    assert (EFl : skipn (length delivered) F = live).
    { rewrite EF, (EX eq_refl), <- Hdl. rewrite skipn_app, skipn_all, Nat.sub_diag. reflexivity. }
    split.
    { rewrite EFl. destruct (Z.le_ge_cases filtered len).
      - rewrite !firstn_all2 by lia. reflexivity.
      - f_equal. lia. }
    split; [|split; [constructor|lia]].
    exists stD, oD, rD. cbn [r_filter r_pos r_filtered r_unfiltered r_live r_end].
    split; [exact ED|]. split; [exact Hfeq|].
    split; [rewrite zlen_skipn; unfold zlen in *; lia|].
    split; [lia|]. split; [lia|]. split; [lia|]. split; [lia|]. split; [exact ES|].
    split; [reflexivity|]. split; [reflexivity|].
    rewrite <- app_assoc, firstn_skipn. exact Hdl.
  - destruct Hcase as (Hdl & Hsk).
    rewrite orb_false_r.
    assert (EFl : skipn (length delivered) F = firstn (Z.to_nat filtered) live ++ X).
    { rewrite EF, <- Hdl, <- app_assoc. rewrite skipn_app, skipn_all, Nat.sub_diag. reflexivity. }
    destruct (Z.eqb_spec (len - copy) 0) as [Hz|Hnz].
    + (* the caller's buffer is full *)
      assert (Hc : copy = len) by lia.
      exists (firstn (Z.to_nat copy) live), (mkR flt pos' (filtered - copy) unfiltered (skipn (Z.to_nat copy) live) false), inner, D.
      split; [reflexivity|].
      split.
      { rewrite EFl, Hc. symmetry. apply firstn_firstn_app; lia. }
      split; [|split; [assumption|lia]].
      exists stD, oD, rD. cbn [r_filter r_pos r_filtered r_unfiltered r_live r_end].
      split; [exact ED|]. split; [exact Hfeq|].
      split; [rewrite zlen_skipn; unfold zlen in *; lia|].
      split; [lia|]. split; [lia|]. split; [lia|]. split; [lia|]. split; [exact ES|].
      split.
      * rewrite <- Hdl, <- app_assoc. f_equal.
        replace (Z.to_nat filtered) with (Z.to_nat copy + Z.to_nat (filtered - copy))%nat by lia.
        apply eq_sym, firstn_add.
      * rewrite <- Hsk, skipn_skipn'. f_equal. lia.
    + (* everything filtered has been copied out; get more from the inner reader *)
      assert (Hc : copy = filtered) by lia.
      assert (Hf' : filtered - copy = 0) by lia. rewrite Hf'. cbn [Z.eqb negb].
      assert (Hstart : pos' + 0 + unfiltered <= 4096) by lia.
      destruct (Z.ltb_spec FILTER_BUF_SIZE (pos' + 0 + unfiltered)) as [Hbad|_]; [unfold FILTER_BUF_SIZE in Hbad; lia|].
      (* the unfiltered tail is short, so there is room in the buffer *)
      assert (HbD : bytes_ok D = true /\ bytes_ok (concat inner) = true)
        by (apply bytes_ok_app; rewrite <- ES; exact HbS).
      destruct HbD as [HbD HbI].
      destruct (Htot st0 D HbD) as (s' & o & r & E & Hr & Hlr & Hr16 & Hbo).
      rewrite ED in E. injection E as <- <- <-.
      assert (HrDlen : zlen rD = unfiltered).
      { rewrite <- Hsk, zlen_skipn. unfold zlen in *. lia. }
      assert (Hroom : 0 < FILTER_BUF_SIZE - (pos' + 0 + unfiltered)).
      { unfold pos', FILTER_BUF_SIZE in *. unfold zlen in HrDlen.
        destruct (Z.eqb_spec (pos + copy + (filtered - copy) + unfiltered) 4096); lia. }
      destruct (inner_read inner (FILTER_BUF_SIZE - (pos' + 0 + unfiltered))) as [data inner'] eqn:Eir.
      destruct (inner_read_spec _ _ _ _ Hne Hroom Eir) as (Econc & Hdlen & Hne' & Hnil).
      assert (Hlive' : skipn (Z.to_nat copy) live = rD) by (rewrite Hc; exact Hsk).
      assert (Hout1 : delivered ++ firstn (Z.to_nat copy) live = oD) by (rewrite Hc; exact Hdl).
      destruct (Z.eqb_spec (zlen data) 0) as [Hd0|Hdn0].
      * (* end of stream *)
        assert (data = []) by (destruct data; [reflexivity|rewrite zlen_cons in Hd0; pose proof (zlen_nonneg data); lia]).
        subst data. destruct (Hnil eq_refl) as [-> ->].
        destruct (IH (mkR flt pos' unfiltered 0 (skipn (Z.to_nat copy) live) true) [] (len - copy)
                    (delivered ++ firstn (Z.to_nat copy) live) D) as (out2 & rs2 & in2 & D2 & E2 & Eo2 & Hinv2 & Hne2 & Hl2).
        { exists stD, oD, rD. cbn [r_filter r_pos r_filtered r_unfiltered r_live r_end].
          split; [exact ED|]. split; [exact Hfeq|].
          split; [rewrite Hlive'; lia|].
          split; [lia|]. split; [lia|]. split; [lia|]. split; [lia|]. split; [exact ES|].
          split; [reflexivity|]. split; [reflexivity|]. rewrite Hlive', Hout1. reflexivity. }
        { constructor. }
        { lia. }
        { cbn [concat length r_end] in *. lia. }
        rewrite E2. cbn [obind push_out].
        exists (firstn (Z.to_nat copy) live ++ out2), rs2, in2, D2.
        split; [reflexivity|].
        split.
        { rewrite Eo2, Hc. symmetry.
          rewrite (take_more (firstn (Z.to_nat filtered) live) X (Z.to_nat len) _ EFl)
            by (rewrite firstn_length; lia).
          f_equal. rewrite firstn_length, skipn_skipn', app_length, firstn_length.
          f_equal. lia. }
        split; [rewrite <- app_assoc in Hinv2; exact Hinv2|].
        split; [exact Hne2|]. cbn [concat length] in *. lia.
      * (* data arrived: filter it together with the carried-over tail *)
        assert (HbData : bytes_ok data = true /\ bytes_ok (concat inner') = true)
          by (apply bytes_ok_app; rewrite <- Econc; exact HbI).
        destruct HbData as [HbData HbI'].
        assert (HbrD : bytes_ok rD = true) by (rewrite <- Hr; apply bytes_ok_skipn; exact HbD).
        assert (HbIn : bytes_ok (rD ++ data) = true) by (apply bytes_ok_app; split; assumption).
        destruct (Htot stD (rD ++ data) HbIn) as (s1 & o1 & r1 & E1 & Hr1 & Hl1 & Hr1s & Hbo1).
        destruct (Hresp stD flt (rD ++ data) s1 o1 r1 Hfeq HbIn E1) as (flt' & E1' & Hfeq1).
        destruct (Hchunk st0 D data stD oD rD s1 o1 r1 HbD HbData ED E1) as (sD' & ED' & HfeqD).
        rewrite Hlive', E1'. cbn [obind].
        assert (Hlens : zlen o1 + zlen r1 = unfiltered + zlen data).
        { rewrite <- HrDlen. unfold zlen in *. rewrite app_length in Hl1. lia. }
        destruct (Z.ltb_spec (unfiltered + zlen data) (zlen o1)) as [Hbad|_];
          [pose proof (zlen_nonneg r1); lia|].
        destruct (IH (mkR flt' pos' (zlen o1) (unfiltered + zlen data - zlen o1) (o1 ++ r1) false) inner' (len - copy)
                    (delivered ++ firstn (Z.to_nat copy) live) (D ++ data)) as (out2 & rs2 & in2 & D2 & E2 & Eo2 & Hinv2 & Hne2 & Hl2).
        { exists sD', (oD ++ o1), r1. cbn [r_filter r_pos r_filtered r_unfiltered r_live r_end].
          split; [exact ED'|]. split; [apply feq_trans with s1; [apply feq_sym; exact HfeqD|exact Hfeq1]|].
          split; [rewrite zlen_app; lia|].
          split; [apply zlen_nonneg|]. split; [pose proof (zlen_nonneg r1); lia|]. split; [lia|].
          split; [unfold FILTER_BUF_SIZE in *; lia|].
          split; [rewrite <- app_assoc, <- Econc; exact ES|].
          assert (En : Z.to_nat (zlen o1) = length o1) by (unfold zlen; lia).
          rewrite En. split.
          - rewrite Hout1. f_equal. rewrite firstn_app, firstn_all, Nat.sub_diag. cbn [firstn]. apply app_nil_r.
          - rewrite skipn_app, skipn_all, Nat.sub_diag. reflexivity. }
        { exact Hne'. }
        { lia. }
        { assert (length (concat inner) = length data + length (concat inner'))%nat
            by (rewrite Econc, app_length; reflexivity).
          assert (0 < length data)%nat by (unfold zlen in Hdn0; pose proof (zlen_nonneg data); unfold zlen in *; lia).
          cbn [r_end]. lia. }
        rewrite E2. cbn [obind push_out].
        exists (firstn (Z.to_nat copy) live ++ out2), rs2, in2, D2.
        split; [reflexivity|].
        split.
        { rewrite Eo2, Hc. symmetry.
          rewrite (take_more (firstn (Z.to_nat filtered) live) X (Z.to_nat len) _ EFl)
            by (rewrite firstn_length; lia).
          f_equal. rewrite firstn_length, skipn_skipn', app_length, firstn_length.
          f_equal. lia. }
        split; [rewrite <- app_assoc in Hinv2; exact Hinv2|].
        split; [exact Hne2|].
        assert (length (concat inner) = length data + length (concat inner'))%nat
          by (rewrite Econc, app_length; reflexivity). lia.
Qed.


Lemma read_ok fuel rs inner len delivered D :
  rinv rs delivered D inner -> all_nonempty inner -> 0 <= len ->
  (length (concat inner) + 1 < fuel)%nat ->
  exists out rs' inner' D',
    bcj_read fuel a rs inner len = Ok (out, rs', inner') /\
    out = firstn (Z.to_nat len) (skipn (length delivered) F) /\
    rinv rs' (delivered ++ out) D' inner' /\ all_nonempty inner' /\
    (length (concat inner') <= length (concat inner))%nat.
Proof.
  intros Hinv Hne Hlen Hfuel. unfold bcj_read.
  destruct (Z.leb_spec len 0) as [Hz|Hpos].
  - exists [], rs, inner, D. replace (Z.to_nat len) with 0%nat by lia. cbn [firstn].
    rewrite app_nil_r. auto.
  - apply read_loop_ok with D; auto. destruct (r_end rs); lia.
Qed.

Lemma firstn_skipn_firstn {A} (n1 n2 : nat) (G : list A) :
  firstn n2 (skipn (length (firstn n1 G)) G) = firstn n2 (skipn n1 G).
Proof.
  rewrite firstn_length. destruct (Nat.le_gt_cases n1 (length G)).
  - rewrite Nat.min_l by assumption. reflexivity.
  - rewrite Nat.min_r by lia. rewrite skipn_all, skipn_all2 by lia. reflexivity.
Qed.

Lemma read_calls_ok fuel sizes : forall rs inner delivered D,
  rinv rs delivered D inner -> all_nonempty inner -> Forall (fun n => 0 <= n) sizes ->
  (length (concat inner) + 1 < fuel)%nat ->
  exists out rs' inner',
    bcj_read_calls fuel a rs inner sizes = Ok (out, rs', inner') /\
    out = firstn (Z.to_nat (fold_right Z.add 0 sizes)) (skipn (length delivered) F).
Proof.
  induction sizes as [|n ns IH]; intros rs inner delivered D Hinv Hne Hs Hfuel.
  - exists [], rs, inner. split; reflexivity.
  - inversion Hs as [|? ? Hn Hns]; subst.
    destruct (read_ok fuel rs inner n delivered D Hinv Hne Hn Hfuel)
      as (o1 & rs1 & in1 & D1 & E1 & Eo1 & Hinv1 & Hne1 & Hl1).
    destruct (IH rs1 in1 (delivered ++ o1) D1 Hinv1 Hne1 Hns ltac:(lia)) as (o2 & rs2 & in2 & E2 & Eo2).
    cbn [bcj_read_calls]. rewrite E1. cbn [obind]. rewrite E2. cbn [obind push_out].
    exists (o1 ++ o2), rs2, in2. split; [reflexivity|].
    cbn [fold_right].
    assert (Hsum : 0 <= fold_right Z.add 0 ns).
    { clear -Hns. induction Hns; cbn [fold_right]; lia. }
    set (t := fold_right Z.add 0 ns) in *.
    replace (Z.to_nat (n + t)) with (Z.to_nat n + Z.to_nat t)%nat by lia.
    rewrite firstn_add, <- Eo1. f_equal.
    rewrite Eo2, app_length, <- skipn_skipn'. rewrite Eo1. apply firstn_skipn_firstn.
Qed.

End Reader.

(* BCJReader from its constructor: the bytes obtained by ANY history of read calls are a prefix
   (of the total length asked for) of `code` applied to the whole inner stream with the
   unconvertible tail passed through, whatever chunks the inner reader delivers. *)
Theorem reader_any_sizes a :
  code_facts a false ->
  forall st0, bcj_code a false st0 [] = Ok (st0, [], []) ->
  forall parts sizes stS oS rS,
    all_nonempty parts -> bytes_ok (concat parts) = true -> Forall (fun n => 0 <= n) sizes ->
    bcj_code a false st0 (concat parts) = Ok (stS, oS, rS) ->
    exists rs' inner',
      bcj_read_calls (bcj_read_fuel parts) a (mkR st0 0 0 0 [] false) parts sizes =
        Ok (firstn (Z.to_nat (fold_right Z.add 0 sizes)) (oS ++ rS), rs', inner').
Proof.
  intros (Htot & Hresp & Hchunk) st0 Hnil parts sizes stS oS rS Hne Hb Hs HS.
  destruct (read_calls_ok a Htot Hresp Hchunk st0 (concat parts) stS oS rS Hb HS
              (bcj_read_fuel parts) sizes (mkR st0 0 0 0 [] false) parts [] [])
    as (out & rs' & inner' & E & Eo).
  - exists st0, [], []. cbn [r_filter r_pos r_filtered r_unfiltered r_live r_end].
    split; [exact Hnil|]. split; [apply feq_refl|]. split; [reflexivity|].
    repeat (split; [lia|]). split; [reflexivity|]. split; reflexivity.
  - exact Hne.
  - exact Hs.
  - unfold bcj_read_fuel. lia.
  - exists rs', inner'. rewrite E, Eo. reflexivity.
Qed.
