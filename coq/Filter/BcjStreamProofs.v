(* Filter/BcjStreamProofs.v — BCJReader and BCJWriter against the stream-level meaning of a filter.
   Generic part: everything is derived from three facts about one architecture's `code`
   (totality with a short untouched rest, compatibility with an equivalence of filter states,
   chunking), collected in [code_facts]; the per-architecture instances are in
   Filter/BcjInstProofs.v. *)
From LzVerif Require Import Base.Bytes Filter.Bcj Filter.BcjStream Filter.BcjArithProofs
  Filter.BcjWordProofs Filter.BcjCodeProofs.
Ltac Zify.zify_post_hook ::= Z.div_mod_to_equations.

(* ------------------------------------------------------------------------------------------ *)
(* facts about lists *)
Lemma bytes_ok_app l1 l2 : bytes_ok (l1 ++ l2) = true <-> bytes_ok l1 = true /\ bytes_ok l2 = true.
Proof. unfold bytes_ok. rewrite forallb_app, andb_true_iff. tauto. Qed.

Lemma bytes_ok_firstn n l : bytes_ok l = true -> bytes_ok (firstn n l) = true.
Proof.
  intros H. rewrite <- (firstn_skipn n l) in H. apply bytes_ok_app in H. tauto.
Qed.
Lemma bytes_ok_skipn n l : bytes_ok l = true -> bytes_ok (skipn n l) = true.
Proof.
  intros H. rewrite <- (firstn_skipn n l) in H. apply bytes_ok_app in H. tauto.
Qed.

Lemma firstn_add {A} (n m : nat) (l : list A) :
  firstn (n + m) l = firstn n l ++ firstn m (skipn n l).
Proof.
  revert l; induction n as [|n IH]; intros l; [reflexivity|].
  destruct l as [|x t]; [cbn; rewrite firstn_nil; reflexivity|].
  cbn [Nat.add firstn skipn app]. rewrite IH. reflexivity.
Qed.

Lemma skipn_skipn' {A} (n m : nat) (l : list A) : skipn n (skipn m l) = skipn (m + n) l.
Proof.
  revert l; induction m as [|m IH]; intros l; [reflexivity|].
  destruct l as [|x t]; [cbn; rewrite skipn_nil; reflexivity|]. cbn [Nat.add skipn]. apply IH.
Qed.

Lemma zlen_firstn {A} (n : nat) (l : list A) : (n <= length l)%nat -> zlen (firstn n l) = Z.of_nat n.
Proof. intros H. unfold zlen. rewrite firstn_length. f_equal. lia. Qed.

Lemma zlen_skipn {A} (n : nat) (l : list A) : zlen (skipn n l) = zlen l - Z.of_nat (Nat.min n (length l)).
Proof. unfold zlen. rewrite skipn_length. lia. Qed.

(* ------------------------------------------------------------------------------------------ *)
(* equivalence of filter states: same position, same low three bits of prev_mask (all that any
   later step of the x86 filter looks at; the other filters do not look at prev_mask at all) *)
Definition feq (s1 s2 : fstate) : Prop := f_pos s1 = f_pos s2 /\ f_mask s1 mod 8 = f_mask s2 mod 8.

Lemma feq_refl s : feq s s.
Proof. split; reflexivity. Qed.
Lemma feq_sym s1 s2 : feq s1 s2 -> feq s2 s1.
Proof. intros [H1 H2]. split; congruence. Qed.
Lemma feq_trans s1 s2 s3 : feq s1 s2 -> feq s2 s3 -> feq s1 s3.
Proof. intros [H1 H2] [H3 H4]. split; congruence. Qed.

(* the three facts *)
Definition code_total (a : arch) (enc : bool) : Prop :=
  forall st buf, bytes_ok buf = true ->
    exists st' o r, bcj_code a enc st buf = Ok (st', o, r) /\
      skipn (length o) buf = r /\ (length o + length r = length buf)%nat /\ (length r < 16)%nat /\
      bytes_ok o = true.

Definition code_respects (a : arch) (enc : bool) : Prop :=
  forall st1 st2 buf s1' o r, feq st1 st2 -> bytes_ok buf = true ->
    bcj_code a enc st1 buf = Ok (s1', o, r) ->
    exists s2', bcj_code a enc st2 buf = Ok (s2', o, r) /\ feq s1' s2'.

Definition code_chunks (a : arch) (enc : bool) : Prop :=
  forall st A B st1 oA rA st2 oB rB, bytes_ok A = true -> bytes_ok B = true ->
    bcj_code a enc st A = Ok (st1, oA, rA) ->
    bcj_code a enc st1 (rA ++ B) = Ok (st2, oB, rB) ->
    exists st2', bcj_code a enc st (A ++ B) = Ok (st2', oA ++ oB, rB) /\ feq st2 st2'.

Definition code_facts (a : arch) (enc : bool) : Prop :=
  code_total a enc /\ code_respects a enc /\ code_chunks a enc.

(* ------------------------------------------------------------------------------------------ *)
Section Generic.
Variable a : arch.
Variable enc : bool.
Hypothesis Htot : code_total a enc.
Hypothesis Hresp : code_respects a enc.
Hypothesis Hchunk : code_chunks a enc.

(* the converted prefix only grows when more data is appended; appending nothing changes nothing *)
Lemma code_nil_rest st A st1 oA rA : bytes_ok A = true ->
  bcj_code a enc st A = Ok (st1, oA, rA) ->
  exists st2, bcj_code a enc st1 rA = Ok (st2, [], rA) /\ feq st2 st1.
Proof.
  intros HbA HA.
  destruct (Htot st A HbA) as (s' & o & r & E & Hr & Hl & _ & Hbo).
  rewrite HA in E. injection E as <- <- <-.
  assert (HbrA : bytes_ok rA = true) by (rewrite <- Hr; apply bytes_ok_skipn; assumption).
  destruct (Htot st1 rA HbrA) as (st2 & oB & rB & EB & HrB & HlB & _ & _).
  assert (EB' : bcj_code a enc st1 (rA ++ []) = Ok (st2, oB, rB)) by (rewrite app_nil_r; exact EB).
  destruct (Hchunk st A [] st1 oA rA st2 oB rB HbA eq_refl HA EB') as (st2' & E2 & Hf).
  rewrite app_nil_r in E2. rewrite HA in E2. injection E2 as E2a E2b E2c.
  assert (oB = []).
  { apply (f_equal (@length Z)) in E2b. rewrite app_length in E2b. destruct oB; [reflexivity|cbn in E2b; lia]. }
  subst oB rB. exists st2. split; [exact EB|]. rewrite E2a. exact Hf.
Qed.

End Generic.

(* ---------------------------------------- writer ---------------------------------------- *)
Section Writer.
Variable a : arch.
Hypothesis Htot : code_total a true.
Hypothesis Hchunk : code_chunks a true.

(* The write-call histories in which BCJWriter behaves like a stream filter: no call leaves an
   unconverted tail while more data follows.  The complement is the known finding
   bcj-writer-midstream-tail. *)
Fixpoint no_midstream_tail (f : fstate) (parts : list (list Z)) : Prop :=
  match parts with
  | [] => True
  | p :: ps =>
      match bcj_code a true f p with
      | Ok (f', o, rest) => (rest = [] \/ concat ps = []) /\ no_midstream_tail f' ps
      | _ => False
      end
  end.

Lemma code_empty f : exists f', bcj_code a true f [] = Ok (f', [], []).
Proof.
  destruct (Htot f [] eq_refl) as (f' & o & r & E & _ & Hl & _).
  cbn [length] in Hl. destruct o; [|cbn in Hl; lia]. destruct r; [|cbn in Hl; lia]. eauto.
Qed.

Lemma write_calls_empty ps : forall f, concat ps = [] -> exists f', bcj_write_calls a f ps = Ok (f', []).
Proof.
  induction ps as [|p ps IH]; intros f Hc; [eexists; reflexivity|].
  cbn [concat] in Hc. apply app_eq_nil in Hc. destruct Hc as [-> Hc].
  destruct (code_empty f) as (f' & E). destruct (IH f' Hc) as (f'' & E2).
  exists f''. cbn [bcj_write_calls]. unfold bcj_write. rewrite E. cbn [obind app]. rewrite E2. reflexivity.
Qed.

Theorem writer_partition_known parts : forall f,
  bytes_ok (concat parts) = true -> no_midstream_tail f parts ->
  exists f1 f2 o r, bcj_write_calls a f parts = Ok (f1, o ++ r) /\
                    bcj_code a true f (concat parts) = Ok (f2, o, r).
Proof.
  induction parts as [|p ps IH]; intros f Hb Hn.
  - destruct (code_empty f) as (f' & E). exists f, f', [], []. split; [reflexivity|exact E].
  - cbn [concat] in Hb. apply bytes_ok_app in Hb. destruct Hb as [Hbp Hbs].
    cbn [no_midstream_tail] in Hn.
    destruct (bcj_code a true f p) as [[[f' o] rest]| | |] eqn:Ep; try contradiction.
    destruct Hn as [Hcase Hn].
    cbn [bcj_write_calls concat]. unfold bcj_write. rewrite Ep. cbn [obind].
    destruct Hcase as [Hr|Hc].
    + subst rest.
      destruct (IH f' Hbs Hn) as (f1 & f2 & o2 & r2 & Ew & Ec).
      rewrite Ew. cbn [obind].
      assert (Ec' : bcj_code a true f' ([] ++ concat ps) = Ok (f2, o2, r2)) by exact Ec.
      destruct (Hchunk f p (concat ps) f' o [] f2 o2 r2 Hbp Hbs Ep Ec') as (f2' & E2 & _).
      exists f1, f2', (o ++ o2), r2. split; [|exact E2].
      rewrite app_nil_r, app_assoc. reflexivity.
    + destruct (write_calls_empty ps f' Hc) as (f'' & Ew). rewrite Ew. cbn [obind].
      rewrite Hc, !app_nil_r. exists f'', f', o, rest. split; [reflexivity|exact Ep].
Qed.

End Writer.

(* ---------------------------------------- reader ---------------------------------------- *)
Definition script_ok (evs : list inner_event) : Prop :=
  Forall (fun e => match e with IData p => p <> [] | IErr _ => True end) evs.

(* the error codes a script will produce, in order *)
Fixpoint script_errs (evs : list inner_event) : list Z :=
  match evs with
  | [] => []
  | IData _ :: rest => script_errs rest
  | IErr c :: rest => c :: script_errs rest
  end.

Lemma inner_read_spec evs n ret inner' :
  script_ok evs -> 0 < n -> inner_read evs n = (ret, inner') ->
  script_ok inner' /\
  match ret with
  | BjData data =>
      script_data evs = data ++ script_data inner' /\ zlen data <= n /\
      script_errs inner' = script_errs evs /\
      (data = [] -> evs = [] /\ inner' = [])
  | BjErr c => evs = IErr c :: inner'
  end.
Proof.
  intros Hok Hn H. unfold inner_read in H.
  destruct (Z.leb_spec n 0); [lia|].
  destruct evs as [|[p|c] rest].
  - injection H as <- <-. split; [constructor|]. split; [reflexivity|]. split; [cbn; lia|]. auto.
  - inversion Hok as [|? ? Hp Hrest]; subst.
    destruct (Z.leb_spec (zlen p) n) as [Hle|Hgt].
    + injection H as <- <-. split; [assumption|]. split; [reflexivity|]. split; [assumption|].
      split; [reflexivity|]. intros ->. congruence.
    + injection H as <- <-.
      assert (Hlt : (Z.to_nat n < length p)%nat) by (unfold zlen in Hgt; lia).
      split.
      { constructor; [|assumption]. intros E. apply (f_equal (@length Z)) in E.
        rewrite skipn_length in E. cbn in E. lia. }
      split; [cbn [script_data]; rewrite app_assoc, firstn_skipn; reflexivity|].
      split; [unfold zlen; rewrite firstn_length; lia|]. split; [reflexivity|].
      intros E. apply (f_equal (@length Z)) in E. rewrite firstn_length in E. cbn in E. lia.
  - inversion Hok; subst. injection H as <- <-. split; [assumption|reflexivity].
Qed.

Lemma firstn_firstn_app {A} (n m : nat) (l X : list A) :
  (n <= m)%nat -> (m <= length l)%nat -> firstn n (firstn m l ++ X) = firstn n l.
Proof.
  intros Hnm Hml. rewrite firstn_app, firstn_firstn.
  rewrite firstn_length. replace (n - Nat.min m (length l))%nat with 0%nat by lia.
  cbn [firstn]. rewrite app_nil_r. f_equal. lia.
Qed.

Lemma firstn_nil_inv {A} (n : nat) (l : list A) : (0 < n)%nat -> firstn n l = [] -> l = [].
Proof. destruct n; [lia|]. destruct l; [reflexivity|]. cbn. discriminate. Qed.

Lemma firstn_skipn_len {A} (n : nat) (o G : list A) : o = firstn n G -> G = o ++ skipn (length o) G.
Proof.
  intros ->. rewrite firstn_length. destruct (Nat.le_gt_cases n (length G)).
  - rewrite Nat.min_l by assumption. symmetry. apply firstn_skipn.
  - rewrite Nat.min_r by lia. rewrite firstn_all2, skipn_all by lia. symmetry. apply app_nil_r.
Qed.

Lemma take_more {A} (pre X : list A) (n : nat) (G : list A) :
  G = pre ++ X -> (length pre <= n)%nat ->
  firstn n G = pre ++ firstn (n - length pre) (skipn (length pre) G).
Proof.
  intros -> Hn. replace n with (length pre + (n - length pre))%nat at 1 by lia.
  rewrite firstn_add. f_equal. rewrite firstn_app, firstn_all, Nat.sub_diag. cbn [firstn]. apply app_nil_r.
Qed.

Lemma firstn_skipn_firstn {A} (n1 n2 : nat) (G : list A) :
  firstn n2 (skipn (length (firstn n1 G)) G) = firstn n2 (skipn n1 G).
Proof.
  rewrite firstn_length. destruct (Nat.le_gt_cases n1 (length G)).
  - rewrite Nat.min_l by assumption. reflexivity.
  - rewrite Nat.min_r by lia. rewrite skipn_all, skipn_all2 by lia. reflexivity.
Qed.

Section Reader.
Variable a : arch.
Hypothesis Htot : code_total a false.
Hypothesis Hresp : code_respects a false.
Hypothesis Hchunk : code_chunks a false.

Variable st0 : fstate.          (* the filter as constructed *)
Variable S : list Z.            (* all the data of the inner stream *)
Variables (stS : fstate) (oS rS : list Z).
Hypothesis HbS : bytes_ok S = true.
Hypothesis HS : bcj_code a false st0 S = Ok (stS, oS, rS).

(* what the reader must deliver: code applied to the whole stream, the tail passed through *)
Let F : list Z := oS ++ rS.

Definition rinv (rs : rstate) (delivered D : list Z) (inner : list inner_event) : Prop :=
  exists stD oD rD,
    bcj_code a false st0 D = Ok (stD, oD, rD) /\ feq stD (r_filter rs) /\
    zlen (r_live rs) = r_filtered rs + r_unfiltered rs /\ 0 <= r_filtered rs /\ 0 <= r_unfiltered rs /\
    0 <= r_pos rs /\ r_pos rs + r_filtered rs + r_unfiltered rs <= 4096 /\
    S = D ++ script_data inner /\
    if r_end rs then script_data inner = [] /\ r_unfiltered rs = 0 /\ delivered ++ r_live rs = oD ++ rD
    else delivered ++ firstn (Z.to_nat (r_filtered rs)) (r_live rs) = oD /\
         skipn (Z.to_nat (r_filtered rs)) (r_live rs) = rD.

(* the converted prefix of a prefix of the stream is a prefix of the final output *)
Lemma prefix_of_F D rest stD oD rD :
  S = D ++ rest -> bcj_code a false st0 D = Ok (stD, oD, rD) ->
  exists X, F = oD ++ X /\ (rest = [] -> X = rD).
Proof.
  intros ES ED.
  assert (HbD : bytes_ok D = true /\ bytes_ok rest = true)
    by (apply bytes_ok_app; rewrite <- ES; exact HbS).
  destruct HbD as [HbD HbI].
  destruct (Htot st0 D HbD) as (s' & o & r & E & Hr & _ & _ & _).
  rewrite ED in E. injection E as <- <- <-.
  assert (HbrD : bytes_ok (rD ++ rest) = true).
  { apply bytes_ok_app. split; [rewrite <- Hr; apply bytes_ok_skipn; exact HbD|exact HbI]. }
  destruct (Htot stD (rD ++ rest) HbrD) as (st2 & oB & rB & EB & HrB & HlB & _ & _).
  destruct (Hchunk st0 D rest stD oD rD st2 oB rB HbD HbI ED EB) as (st2' & E2 & _).
  rewrite <- ES, HS in E2. injection E2 as _ E2b E2c.
  exists (oB ++ rB). unfold F. rewrite E2b, E2c, app_assoc. split; [reflexivity|].
  intros ->. rewrite app_nil_r in EB.
  destruct (code_nil_rest a false Htot Hchunk st0 D stD oD rD HbD ED) as (st3 & E3 & _).
  rewrite EB in E3. injection E3 as _ -> ->. reflexivity.
Qed.

(* What one pass through the loop of read() achieves.  [size] = bytes copied by earlier
   iterations of the same call.  Either no failure of the inner reader is met: the call delivers
   exactly min(len, what is left) bytes; or the next failure [c] of the script is consumed: the
   call delivers fewer bytes, reports the error only if it delivered nothing at all, and remembers
   it unless it is the transient one. *)
Definition loop_post (rs : rstate) (inner : list inner_event) (len size : Z) (delivered : list Z)
                     (out : list Z) (e : option Z) (rs' : rstate) (inner' : list inner_event) : Prop :=
  (e = None /\ out = firstn (Z.to_nat len) (skipn (length delivered) F) /\
   r_err rs' = r_err rs /\ script_errs inner' = script_errs inner)
  \/
  (exists c, script_errs inner = c :: script_errs inner' /\
     out = firstn (length out) (skipn (length delivered) F) /\ (Z.of_nat (length out) <= len) /\
     e = (if 0 <? size + Z.of_nat (length out) then None else Some c) /\
     r_err rs' = (if c =? E_INTERRUPTED then r_err rs else Some c)).

Lemma read_loop_ok : forall fuel rs inner len size delivered D,
  rinv rs delivered D inner -> script_ok inner -> 0 < len -> 0 <= size ->
  (length (script_data inner) + (if r_end rs then 0 else 1) < fuel)%nat ->
  exists out e rs' inner' D',
    bcj_read_loop fuel a rs inner len size = Ok (out, e, rs', inner') /\
    loop_post rs inner len size delivered out e rs' inner' /\
    rinv rs' (delivered ++ out) D' inner' /\ script_ok inner' /\
    (length (script_data inner') <= length (script_data inner))%nat.
Proof.
  induction fuel as [|fuel IH]; intros rs inner len size delivered D Hinv Hne Hlen Hsize Hfuel; [lia|].
  destruct Hinv as (stD & oD & rD & ED & Hfeq & Hzl & Hf0 & Hu0 & Hp0 & Hcap & ES & Hcase).
  destruct (prefix_of_F D (script_data inner) stD oD rD ES ED) as (X & EF & EX).
  destruct rs as [flt pos filtered unfiltered live endr rerr].
  cbn [r_filter r_pos r_filtered r_unfiltered r_live r_end r_err] in *.
  cbn [bcj_read_loop r_filter r_pos r_filtered r_unfiltered r_live r_end r_err].
  set (copy := if 0 <? filtered then Z.min filtered len else 0).
  assert (Hcopy : copy = Z.min filtered len).
  { unfold copy. destruct (Z.ltb_spec 0 filtered); lia. }
  assert (Hlive_len : length live = Z.to_nat (filtered + unfiltered)) by (unfold zlen in Hzl; lia).
  set (pos' := if pos + copy + (filtered - copy) + unfiltered =? FILTER_BUF_SIZE then 0 else pos + copy).
  assert (Hpos' : 0 <= pos' /\ pos' + (filtered - copy) + unfiltered <= 4096).
  { unfold pos', FILTER_BUF_SIZE. destruct (Z.eqb_spec (pos + copy + (filtered - copy) + unfiltered) 4096); lia. }
  destruct endr.
  - (* end of the inner stream already seen: everything left is in [live] *)
    destruct Hcase as (Hin & Hu & Hdl). subst unfiltered.
    rewrite orb_true_r.
    exists (firstn (Z.to_nat copy) live), None,
           (mkR flt pos' (filtered - copy) 0 (skipn (Z.to_nat copy) live) true rerr), inner, D.
    split; [reflexivity|].
    assert (EFl : skipn (length delivered) F = live).
    { rewrite EF, (EX Hin), <- Hdl. rewrite skipn_app, skipn_all, Nat.sub_diag. reflexivity. }
    split.
    { left. split; [reflexivity|]. split; [|split; reflexivity].
      rewrite EFl. destruct (Z.le_ge_cases filtered len).
      - rewrite !firstn_all2 by lia. reflexivity.
      - f_equal. lia. }
    split; [|split; [assumption|lia]].
    exists stD, oD, rD. cbn [r_filter r_pos r_filtered r_unfiltered r_live r_end].
    split; [exact ED|]. split; [exact Hfeq|].
    split; [rewrite zlen_skipn; unfold zlen in *; lia|].
    split; [lia|]. split; [lia|]. split; [lia|]. split; [lia|]. split; [exact ES|].
    split; [exact Hin|]. split; [reflexivity|].
    rewrite <- app_assoc, firstn_skipn. exact Hdl.
  - destruct Hcase as (Hdl & Hsk).
    rewrite orb_false_r.
    assert (EFl : skipn (length delivered) F = firstn (Z.to_nat filtered) live ++ X).
    { rewrite EF, <- Hdl, <- app_assoc. rewrite skipn_app, skipn_all, Nat.sub_diag. reflexivity. }
    destruct (Z.eqb_spec (len - copy) 0) as [Hz|Hnz].
    + (* the caller's buffer is full *)
      assert (Hc : copy = len) by lia.
      exists (firstn (Z.to_nat copy) live), None,
             (mkR flt pos' (filtered - copy) unfiltered (skipn (Z.to_nat copy) live) false rerr), inner, D.
      split; [reflexivity|].
      split.
      { left. split; [reflexivity|]. split; [|split; reflexivity].
        rewrite EFl, Hc. symmetry. apply firstn_firstn_app; lia. }
      split; [|split; [assumption|lia]].
      exists stD, oD, rD. cbn [r_filter r_pos r_filtered r_unfiltered r_live r_end].
      split; [exact ED|]. split; [exact Hfeq|].
      split; [rewrite zlen_skipn; unfold zlen in *; lia|].
      split; [lia|]. split; [lia|]. split; [lia|]. split; [lia|]. split; [exact ES|].
      split.
      * rewrite <- Hdl, <- app_assoc. f_equal.
        replace (Z.to_nat filtered) with (Z.to_nat copy + Z.to_nat (filtered - copy))%nat by lia.
        apply eq_sym, firstn_add.
      * rewrite <- Hsk, skipn_skipn'. f_equal. lia.
    + (* everything filtered has been copied out; get more from the inner reader *)
      assert (Hc : copy = filtered) by lia.
      assert (Hf' : filtered - copy = 0) by lia. rewrite Hf'. cbn [Z.eqb negb].
      assert (Hstart : pos' + 0 + unfiltered <= 4096) by lia.
      destruct (Z.ltb_spec FILTER_BUF_SIZE (pos' + 0 + unfiltered)) as [Hbad|_]; [unfold FILTER_BUF_SIZE in Hbad; lia|].
      (* the unfiltered tail is short, so there is room in the buffer *)
      assert (HbD : bytes_ok D = true /\ bytes_ok (script_data inner) = true)
        by (apply bytes_ok_app; rewrite <- ES; exact HbS).
      destruct HbD as [HbD HbI].
      destruct (Htot st0 D HbD) as (s' & o & r & E & Hr & Hlr & Hr16 & Hbo).
      rewrite ED in E. injection E as <- <- <-.
      assert (HrDlen : zlen rD = unfiltered).
      { rewrite <- Hsk, zlen_skipn. unfold zlen in *. lia. }
      assert (Hroom : 0 < FILTER_BUF_SIZE - (pos' + 0 + unfiltered)).
      { unfold pos', FILTER_BUF_SIZE in *. unfold zlen in HrDlen.
        destruct (Z.eqb_spec (pos + copy + (filtered - copy) + unfiltered) 4096); lia. }
      assert (Hlive' : skipn (Z.to_nat copy) live = rD) by (rewrite Hc; exact Hsk).
      assert (Hout1 : delivered ++ firstn (Z.to_nat copy) live = oD) by (rewrite Hc; exact Hdl).
      assert (Hout1len : length (firstn (Z.to_nat copy) live) = Z.to_nat filtered)
        by (rewrite firstn_length; lia).
      (* the invariant of the state saved when nothing more could be got in this pass *)
      assert (Hsaved : forall err inner0, S = D ++ script_data inner0 ->
                rinv (mkR flt pos' 0 unfiltered (skipn (Z.to_nat copy) live) false err)
                     (delivered ++ firstn (Z.to_nat copy) live) D inner0).
      { intros err inner0 ES0. exists stD, oD, rD. cbn [r_filter r_pos r_filtered r_unfiltered r_live r_end].
        split; [exact ED|]. split; [exact Hfeq|].
        split; [rewrite Hlive'; lia|].
        split; [lia|]. split; [lia|]. split; [lia|]. split; [lia|]. split; [exact ES0|].
        cbn [Z.to_nat firstn skipn]. rewrite app_nil_r. split; [exact Hout1|exact Hlive']. }
      destruct (inner_read inner (FILTER_BUF_SIZE - (pos' + 0 + unfiltered))) as [ret inner'] eqn:Eir.
      destruct (inner_read_spec _ _ _ _ Hne Hroom Eir) as (Hne' & Hret).
      destruct ret as [data|c].
      2:{ (* the inner reader fails *)
        subst inner. cbn [script_data script_errs] in *.
        set (st' := mkR flt pos' 0 unfiltered (skipn (Z.to_nat copy) live) false (if c =? E_INTERRUPTED then rerr else Some c)).
        exists (firstn (Z.to_nat copy) live), (if 0 <? size + copy then None else Some c), st', inner', D.
        split; [destruct (0 <? size + copy); reflexivity|].
        split.
        { right. exists c. split; [reflexivity|].
          split; [rewrite EFl, Hout1len; symmetry; rewrite firstn_app, firstn_firstn, Nat.min_id, firstn_length;
                  replace (Z.to_nat filtered - Nat.min (Z.to_nat filtered) (length live))%nat with 0%nat by lia;
                  cbn [firstn]; rewrite app_nil_r, Hc; reflexivity|].
          split; [rewrite Hout1len; lia|].
          split; [rewrite Hout1len; replace (Z.of_nat (Z.to_nat filtered)) with copy by lia; reflexivity|reflexivity]. }
        split; [apply Hsaved; exact ES|]. split; [exact Hne'|lia]. }
      destruct Hret as (Econc & Hdlen & Herrs & Hnil).
      destruct (Z.eqb_spec (zlen data) 0) as [Hd0|Hdn0].
      * (* end of stream *)
        assert (data = []) by (destruct data; [reflexivity|rewrite zlen_cons in Hd0; pose proof (zlen_nonneg data); lia]).
        subst data. destruct (Hnil eq_refl) as [-> ->].
        destruct (IH (mkR flt pos' unfiltered 0 (skipn (Z.to_nat copy) live) true rerr) [] (len - copy) (size + copy)
                    (delivered ++ firstn (Z.to_nat copy) live) D) as (out2 & e2 & rs2 & in2 & D2 & E2 & Hpost2 & Hinv2 & Hne2 & Hl2).
        { exists stD, oD, rD. cbn [r_filter r_pos r_filtered r_unfiltered r_live r_end].
          split; [exact ED|]. split; [exact Hfeq|].
          split; [rewrite Hlive'; lia|].
          split; [lia|]. split; [lia|]. split; [lia|]. split; [lia|]. split; [exact ES|].
          split; [reflexivity|]. split; [reflexivity|]. rewrite Hlive', Hout1. reflexivity. }
        { constructor. }
        { lia. }
        { lia. }
        { cbn [script_data length r_end] in *. lia. }
        rewrite E2. cbn [obind push_out].
        exists (firstn (Z.to_nat copy) live ++ out2), e2, rs2, in2, D2.
        split; [reflexivity|].
        split.
        { destruct Hpost2 as [(He2 & Eo2 & Herr2 & Hes2)|(c & Hes2 & _)]; [|cbn in Hes2; discriminate].
          left. split; [exact He2|]. split; [|split; assumption].
          rewrite Eo2, Hc. symmetry.
          rewrite (take_more (firstn (Z.to_nat filtered) live) X (Z.to_nat len) _ EFl)
            by (rewrite firstn_length; lia).
          f_equal. rewrite firstn_length, skipn_skipn', app_length, firstn_length.
          f_equal. lia. }
        split; [rewrite <- app_assoc in Hinv2; exact Hinv2|].
        split; [exact Hne2|]. cbn [script_data length] in *. lia.
      * (* data arrived: filter it together with the carried-over tail *)
        assert (HbData : bytes_ok data = true /\ bytes_ok (script_data inner') = true)
          by (apply bytes_ok_app; rewrite <- Econc; exact HbI).
        destruct HbData as [HbData HbI'].
        assert (HbrD : bytes_ok rD = true) by (rewrite <- Hr; apply bytes_ok_skipn; exact HbD).
        assert (HbIn : bytes_ok (rD ++ data) = true) by (apply bytes_ok_app; split; assumption).
        destruct (Htot stD (rD ++ data) HbIn) as (s1 & o1 & r1 & E1 & Hr1 & Hl1 & Hr1s & Hbo1).
        destruct (Hresp stD flt (rD ++ data) s1 o1 r1 Hfeq HbIn E1) as (flt' & E1' & Hfeq1).
        destruct (Hchunk st0 D data stD oD rD s1 o1 r1 HbD HbData ED E1) as (sD' & ED' & HfeqD).
        rewrite Hlive', E1'. cbn [obind].
        assert (Hlens : zlen o1 + zlen r1 = unfiltered + zlen data).
        { rewrite <- HrDlen. unfold zlen in *. rewrite app_length in Hl1. lia. }
        destruct (Z.ltb_spec (unfiltered + zlen data) (zlen o1)) as [Hbad|_];
          [pose proof (zlen_nonneg r1); lia|].
        destruct (IH (mkR flt' pos' (zlen o1) (unfiltered + zlen data - zlen o1) (o1 ++ r1) false rerr) inner' (len - copy) (size + copy)
                    (delivered ++ firstn (Z.to_nat copy) live) (D ++ data)) as (out2 & e2 & rs2 & in2 & D2 & E2 & Hpost2 & Hinv2 & Hne2 & Hl2).
        { exists sD', (oD ++ o1), r1. cbn [r_filter r_pos r_filtered r_unfiltered r_live r_end].
          split; [exact ED'|]. split; [apply feq_trans with s1; [apply feq_sym; exact HfeqD|exact Hfeq1]|].
          split; [rewrite zlen_app; lia|].
          split; [apply zlen_nonneg|]. split; [pose proof (zlen_nonneg r1); lia|]. split; [lia|].
          split; [unfold FILTER_BUF_SIZE in *; lia|].
          split; [rewrite <- app_assoc, <- Econc; exact ES|].
          assert (En : Z.to_nat (zlen o1) = length o1) by (unfold zlen; lia).
          rewrite En. split.
          - rewrite Hout1. f_equal. rewrite firstn_app, firstn_all, Nat.sub_diag. cbn [firstn]. apply app_nil_r.
          - rewrite skipn_app, skipn_all, Nat.sub_diag. reflexivity. }
        { exact Hne'. }
        { lia. }
        { lia. }
        { assert (length (script_data inner) = length data + length (script_data inner'))%nat
            by (rewrite Econc, app_length; reflexivity).
          assert (0 < length data)%nat by (unfold zlen in Hdn0; pose proof (zlen_nonneg data); unfold zlen in *; lia).
          cbn [r_end]. lia. }
        rewrite E2. cbn [obind push_out].
        exists (firstn (Z.to_nat copy) live ++ out2), e2, rs2, in2, D2.
        split; [reflexivity|].
        assert (Hskip : skipn (length (delivered ++ firstn (Z.to_nat copy) live)) F = X).
        { rewrite app_length, <- skipn_skipn', EFl, Hout1len.
          rewrite skipn_app, skipn_all2 by (rewrite firstn_length; lia).
          rewrite firstn_length. replace (Z.to_nat filtered - Nat.min (Z.to_nat filtered) (length live))%nat with 0%nat by lia.
          reflexivity. }
        split.
        { cbn [r_err] in Hpost2.
          destruct Hpost2 as [(He2 & Eo2 & Herr2 & Hes2)|(c & Hes2 & Eo2 & Hol2 & He2 & Herr2)].
          - left. split; [exact He2|]. split; [|split; [exact Herr2|congruence]].
            rewrite Eo2, Hc. symmetry.
            rewrite (take_more (firstn (Z.to_nat filtered) live) X (Z.to_nat len) _ EFl)
              by (rewrite firstn_length; lia).
            f_equal. rewrite firstn_length, skipn_skipn', app_length, firstn_length.
            f_equal. lia.
          - right. exists c. split; [congruence|].
            rewrite app_length, Hout1len.
            split.
            { rewrite (take_more (firstn (Z.to_nat filtered) live) X (Z.to_nat filtered + length out2) _ EFl)
                by (rewrite firstn_length; lia).
              rewrite Hc. f_equal.
              assert (Esk : skipn (length (firstn (Z.to_nat filtered) live)) (skipn (length delivered) F) = X).
              { rewrite skipn_skipn', <- app_length, <- Hc. exact Hskip. }
              rewrite Esk, firstn_length.
              replace (Z.to_nat filtered + length out2 - Nat.min (Z.to_nat filtered) (length live))%nat
                with (length out2) by lia.
              rewrite Eo2 at 1. rewrite Hskip. reflexivity. }
            split; [lia|]. split; [|exact Herr2].
            rewrite He2. replace (size + copy + Z.of_nat (length out2)) with (size + Z.of_nat (Z.to_nat filtered + length out2)) by lia.
            reflexivity. }
        split; [rewrite <- app_assoc in Hinv2; exact Hinv2|].
        split; [exact Hne2|].
        assert (length (script_data inner) = length data + length (script_data inner'))%nat
          by (rewrite Econc, app_length; reflexivity). lia.
Qed.


(* one read() call *)
Definition read_post (rs : rstate) (inner : list inner_event) (len : Z) (delivered : list Z)
                     (out : list Z) (e : option Z) (rs' : rstate) (inner' : list inner_event) : Prop :=
  (len <= 0 /\ out = [] /\ e = None /\ rs' = rs /\ inner' = inner) \/
  (0 < len /\ exists e0, r_err rs = Some e0 /\ out = [] /\ e = Some e0 /\ rs' = rs /\ inner' = inner) \/
  (0 < len /\ r_err rs = None /\ loop_post rs inner len 0 delivered out e rs' inner').

Lemma read_ok fuel rs inner len delivered D :
  rinv rs delivered D inner -> script_ok inner ->
  (length (script_data inner) + 1 < fuel)%nat ->
  exists out e rs' inner' D',
    bcj_read fuel a rs inner len = Ok (out, e, rs', inner') /\
    read_post rs inner len delivered out e rs' inner' /\
    rinv rs' (delivered ++ out) D' inner' /\ script_ok inner' /\
    (length (script_data inner') <= length (script_data inner))%nat.
Proof.
  intros Hinv Hne Hfuel. unfold bcj_read.
  destruct (Z.leb_spec len 0) as [Hz|Hpos].
  - exists [], None, rs, inner, D. split; [reflexivity|]. split; [left; auto|].
    rewrite app_nil_r. auto.
  - destruct (r_err rs) as [e0|] eqn:Ee.
    + exists [], (Some e0), rs, inner, D. split; [reflexivity|].
      split; [right; left; split; [assumption|exists e0; auto]|]. rewrite app_nil_r. auto.
    + destruct (read_loop_ok fuel rs inner len 0 delivered D Hinv Hne Hpos ltac:(lia)
                  ltac:(destruct (r_end rs); lia)) as (out & e & rs' & inner' & D' & E & Hpost & Hinv' & Hne' & Hl).
      exists out, e, rs', inner', D'. split; [exact E|]. split; [right; right; auto|]. auto.
Qed.

(* --- a script without failures: every history of read calls gives exactly the prefix asked for --- *)
Lemma read_calls_ok fuel sizes : forall rs inner delivered D,
  rinv rs delivered D inner -> script_ok inner -> script_errs inner = [] -> r_err rs = None ->
  Forall (fun n => 0 <= n) sizes ->
  (length (script_data inner) + 1 < fuel)%nat ->
  exists out rs' inner',
    bcj_read_calls fuel a rs inner sizes = Ok (out, [], rs', inner') /\
    out = firstn (Z.to_nat (fold_right Z.add 0 sizes)) (skipn (length delivered) F).
Proof.
  induction sizes as [|n ns IH]; intros rs inner delivered D Hinv Hne Hnoerr Herr Hs Hfuel.
  - exists [], rs, inner. split; reflexivity.
  - inversion Hs as [|? ? Hn Hns]; subst.
    destruct (read_ok fuel rs inner n delivered D Hinv Hne Hfuel)
      as (o1 & e1 & rs1 & in1 & D1 & E1 & Hpost & Hinv1 & Hne1 & Hl1).
    assert (Hres : e1 = None /\ o1 = firstn (Z.to_nat n) (skipn (length delivered) F) /\
                   r_err rs1 = None /\ script_errs in1 = []).
    { destruct Hpost as [(Hz & -> & -> & -> & ->)|[(_ & e0 & He0 & _)|(Hpos & _ & Hlp)]].
      - replace (Z.to_nat n) with 0%nat by lia. auto.
      - congruence.
      - destruct Hlp as [(-> & -> & Hr & Hes)|(c & Hes & _)]; [|rewrite Hnoerr in Hes; discriminate].
        split; [reflexivity|]. split; [reflexivity|]. split; congruence. }
    destruct Hres as (-> & Eo1 & Herr1 & Hnoerr1).
    destruct (IH rs1 in1 (delivered ++ o1) D1 Hinv1 Hne1 Hnoerr1 Herr1 Hns ltac:(lia)) as (o2 & rs2 & in2 & E2 & Eo2).
    cbn [bcj_read_calls]. rewrite E1. cbn [obind]. rewrite E2. cbn [obind app].
    exists (o1 ++ o2), rs2, in2. split; [reflexivity|].
    cbn [fold_right].
    assert (Hsum : 0 <= fold_right Z.add 0 ns).
    { clear -Hns. induction Hns; cbn [fold_right]; lia. }
    set (t := fold_right Z.add 0 ns) in *.
    replace (Z.to_nat (n + t)) with (Z.to_nat n + Z.to_nat t)%nat by lia.
    rewrite firstn_add, <- Eo1. f_equal.
    rewrite Eo2, app_length, <- skipn_skipn'. rewrite Eo1. apply firstn_skipn_firstn.
Qed.

(* --- the caller's loop over an arbitrary script --- *)
Lemma drive_ok all : Forall (fun s => 0 < s) all ->
  forall calls fuel rs inner delivered D cur,
  rinv rs delivered D inner -> script_ok inner -> Forall (fun s => 0 < s) cur ->
  (forall c0, r_err rs = Some c0 -> c0 <> E_INTERRUPTED) ->
  (length (script_data inner) + 1 < fuel)%nat ->
  (length (skipn (length delivered) F) + length (script_errs inner) + 1 < calls)%nat ->
  exists out e,
    bcj_drive calls fuel a rs inner all cur = Ok (out, e) /\
    (exists Y, skipn (length delivered) F = out ++ Y) /\
    (e = None -> out = skipn (length delivered) F) /\
    (forall c, e = Some c -> c <> E_INTERRUPTED /\ (In c (script_errs inner) \/ r_err rs = Some c)).
Proof.
  intros Hall. induction calls as [|calls IH]; intros fuel rs inner delivered D cur Hinv Hne Hcur Hsticky Hfuel Hcalls; [lia|].
  cbn [bcj_drive].
  set (pick := match cur with s :: rest => (s, rest) | [] => match all with s :: rest => (s, rest) | [] => (4096, []) end end).
  assert (Hpick : 0 < fst pick /\ Forall (fun s => 0 < s) (snd pick)).
  { unfold pick. destruct cur as [|s rest].
    - destruct all as [|s rest]; cbn [fst snd]; [split; [lia|constructor]|inversion Hall; auto].
    - inversion Hcur; auto. }
  destruct pick as [sz next]. cbn [fst snd] in Hpick. destruct Hpick as [Hsz Hnext].
  destruct (read_ok fuel rs inner sz delivered D Hinv Hne Hfuel)
    as (o1 & e1 & rs1 & in1 & D1 & E1 & Hpost & Hinv1 & Hne1 & Hl1).
  rewrite E1. cbn [obind].
  set (G := skipn (length delivered) F) in *.
  destruct Hpost as [(Hz & _)|[(_ & e0 & He0 & -> & -> & -> & ->)|(_ & Herr & Hlp)]]; [lia| |].
  - (* the remembered error *)
    pose proof (Hsticky e0 He0) as Hne0.
    destruct (Z.eqb_spec e0 E_INTERRUPTED); [contradiction|].
    exists [], (Some e0). split; [reflexivity|]. split; [exists G; reflexivity|].
    split; [discriminate|]. intros c Hc. injection Hc as <-. auto.
  - destruct Hlp as [(-> & Eo1 & Herr1 & Hes1)|(c & Hes & Eo1 & Hol & He1 & Herr1)].
    + (* no failure met *)
      destruct (Z.leb_spec sz 0); [lia|].
      destruct o1 as [|x o1'].
      * exists [], None. split; [reflexivity|]. split; [exists G; reflexivity|].
        split; [|discriminate]. intros _.
        symmetry. apply (firstn_nil_inv (Z.to_nat sz)); [lia|symmetry; exact Eo1].
      * set (o1 := x :: o1') in *.
        assert (HG : G = o1 ++ skipn (length o1) G).
        { apply (firstn_skipn_len (Z.to_nat sz)). exact Eo1. }
        assert (Hsk : skipn (length (delivered ++ o1)) F = skipn (length o1) G).
        { rewrite app_length, <- skipn_skipn'. reflexivity. }
        destruct (IH fuel rs1 in1 (delivered ++ o1) D1 next Hinv1 Hne1 Hnext) as (o2 & e2 & E2 & (Y & HY) & Hnone & Hsome).
        { intros c0 Hc0. apply Hsticky. congruence. }
        { lia. }
        { rewrite Hsk, Hes1.
          assert (length G = length o1 + length (skipn (length o1) G))%nat by (rewrite HG at 1; apply app_length).
          assert (0 < length o1)%nat by (unfold o1; cbn [length]; lia). lia. }
        rewrite E2. cbn [obind].
        exists (o1 ++ o2), e2. split; [reflexivity|].
        split; [exists Y; rewrite HG, <- app_assoc; f_equal; rewrite <- HY, Hsk; reflexivity|].
        split.
        { intros He. rewrite (Hnone He), Hsk. exact (eq_sym HG). }
        { intros c Hc. destruct (Hsome c Hc) as [Hc8 [Hin|Hr]]; (split; [assumption|]); [left; congruence|right; congruence]. }
    + (* a failure of the inner reader was consumed *)
      set (c8 := c =? E_INTERRUPTED) in *.
      destruct o1 as [|x o1'].
      * (* nothing delivered: the call returned the error *)
        assert (Hf : (0 <? 0 + Z.of_nat (@length Z [])) = false) by reflexivity.
        rewrite Hf in He1. subst e1.
        destruct (Z.eqb_spec c E_INTERRUPTED) as [Hc8|Hc8].
        -- rewrite app_nil_r in Hinv1.
           destruct (IH fuel rs1 in1 delivered D1 next Hinv1 Hne1 Hnext) as (o2 & e2 & E2 & HY & Hnone & Hsome).
           { intros c0 Hc0. apply Hsticky. unfold c8 in Herr1. destruct (Z.eqb_spec c E_INTERRUPTED); [congruence|contradiction]. }
           { lia. }
           { fold G. rewrite Hes in Hcalls. cbn [length] in Hcalls. lia. }
           exists o2, e2. split; [exact E2|]. split; [exact HY|]. split; [exact Hnone|].
           intros c' Hc'. destruct (Hsome c' Hc') as [Hn8 [Hin|Hr]]; (split; [assumption|]).
           ++ left. rewrite Hes. right. exact Hin.
           ++ right. unfold c8 in Herr1. destruct (Z.eqb_spec c E_INTERRUPTED); [congruence|contradiction].
        -- exists [], (Some c). split; [reflexivity|]. split; [exists G; reflexivity|].
           split; [discriminate|]. intros c' Hc'. injection Hc' as <-. split; [assumption|].
           left. rewrite Hes. left. reflexivity.
      * set (o1 := x :: o1') in *.
        assert (Hpos1 : (0 <? 0 + Z.of_nat (length o1)) = true) by (apply Z.ltb_lt; unfold o1; cbn [length]; lia).
        rewrite Hpos1 in He1. subst e1.
        destruct (Z.leb_spec sz 0); [lia|].
        assert (HG : G = o1 ++ skipn (length o1) G).
        { apply (firstn_skipn_len (length o1)). exact Eo1. }
        assert (Hsk : skipn (length (delivered ++ o1)) F = skipn (length o1) G).
        { rewrite app_length, <- skipn_skipn'. reflexivity. }
        destruct (IH fuel rs1 in1 (delivered ++ o1) D1 next Hinv1 Hne1 Hnext) as (o2 & e2 & E2 & (Y & HY) & Hnone & Hsome).
        { intros c0 Hc0. rewrite Herr1 in Hc0. unfold c8 in Hc0.
          destruct (Z.eqb_spec c E_INTERRUPTED); [apply Hsticky; exact Hc0|congruence]. }
        { lia. }
        { rewrite Hsk. rewrite Hes in Hcalls. cbn [length] in Hcalls.
          assert (length G = length o1 + length (skipn (length o1) G))%nat by (rewrite HG at 1; apply app_length).
          lia. }
        unfold o1 at 1. rewrite E2. cbn [obind]. fold o1.
        exists (o1 ++ o2), e2. split; [reflexivity|].
        split; [exists Y; rewrite HG, <- app_assoc; f_equal; rewrite <- HY, Hsk; reflexivity|].
        split.
        { intros He. rewrite (Hnone He), Hsk. exact (eq_sym HG). }
        { intros c' Hc'. destruct (Hsome c' Hc') as [Hn8 [Hin|Hr]]; (split; [assumption|]).
          - left. rewrite Hes. right. exact Hin.
          - rewrite Herr1 in Hr. unfold c8 in Hr.
            destruct (Z.eqb_spec c E_INTERRUPTED); [right; exact Hr|].
            left. rewrite Hes. left. congruence. }
Qed.

End Reader.

(* ------------------------------------------------------------------------------------------ *)
Lemma data_script_ok parts : script_ok (data_script parts).
Proof.
  induction parts as [|p ps IH]; [constructor|]. destruct p; cbn [data_script]; [exact IH|].
  constructor; [discriminate|exact IH].
Qed.
Lemma data_script_errs parts : script_errs (data_script parts) = [].
Proof. induction parts as [|p ps IH]; [reflexivity|]. destruct p; cbn [data_script script_errs]; exact IH. Qed.
Lemma data_script_data parts : script_data (data_script parts) = concat parts.
Proof.
  induction parts as [|p ps IH]; [reflexivity|]. destruct p; cbn [data_script script_data concat app]; [exact IH|].
  rewrite IH. reflexivity.
Qed.
Lemma script_errs_length inner : (length (script_errs inner) <= length inner)%nat.
Proof. induction inner as [|[p|c] rest IH]; cbn [script_errs length]; lia. Qed.

Lemma rinv_init a st0 S :
  bcj_code a false st0 [] = Ok (st0, [], []) ->
  forall inner, S = script_data inner -> rinv a st0 S (mkR st0 0 0 0 [] false None) [] [] inner.
Proof.
  intros Hnil inner ES. exists st0, [], []. cbn [r_filter r_pos r_filtered r_unfiltered r_live r_end].
  split; [exact Hnil|]. split; [apply feq_refl|]. split; [reflexivity|].
  repeat (split; [lia|]). split; [exact ES|]. split; reflexivity.
Qed.

(* C07, BCJReader, fault-free inner reader: the bytes obtained by ANY history of read calls
   (destination sizes [sizes], zeros allowed) from an inner reader delivering ANY chunking [parts]
   of the stream are the first (sum of sizes) bytes of `code` applied to the whole stream with the
   unconvertible tail passed through; no call fails. *)
Theorem reader_any_sizes a :
  code_facts a false ->
  forall st0, bcj_code a false st0 [] = Ok (st0, [], []) ->
  forall parts sizes stS oS rS,
    bytes_ok (concat parts) = true -> Forall (fun n => 0 <= n) sizes ->
    bcj_code a false st0 (concat parts) = Ok (stS, oS, rS) ->
    exists rs' inner',
      bcj_read_calls (bcj_read_fuel (data_script parts)) a (mkR st0 0 0 0 [] false None) (data_script parts) sizes =
        Ok (firstn (Z.to_nat (fold_right Z.add 0 sizes)) (oS ++ rS), [], rs', inner').
Proof.
  intros (Htot & Hresp & Hchunk) st0 Hnil parts sizes stS oS rS Hb Hs HS.
  destruct (read_calls_ok a Htot Hresp Hchunk st0 (concat parts) stS oS rS Hb HS
              (bcj_read_fuel (data_script parts)) sizes (mkR st0 0 0 0 [] false None) (data_script parts) [] [])
    as (out & rs' & inner' & E & Eo).
  - apply rinv_init; [exact Hnil|]. symmetry. apply data_script_data.
  - apply data_script_ok.
  - apply data_script_errs.
  - reflexivity.
  - exact Hs.
  - unfold bcj_read_fuel. lia.
  - exists rs', inner'. rewrite E, Eo. reflexivity.
Qed.

(* BCJReader over an inner reader that may fail (repo-patches/13), read by the usual loop that
   repeats a call failing with Interrupted: the bytes obtained are a prefix of the stream-level
   result; the loop ends normally exactly with the whole result; it ends with an error only with a
   non-transient error of the inner reader; if the inner reader only ever fails transiently the
   whole result is obtained. *)
Theorem reader_drive a :
  code_facts a false ->
  forall st0, bcj_code a false st0 [] = Ok (st0, [], []) ->
  forall inner sizes stS oS rS,
    script_ok inner -> bytes_ok (script_data inner) = true -> Forall (fun s => 0 < s) sizes ->
    bcj_code a false st0 (script_data inner) = Ok (stS, oS, rS) ->
    exists out e,
      bcj_drive (bcj_drive_calls inner sizes) (bcj_read_fuel inner) a (mkR st0 0 0 0 [] false None) inner sizes sizes
        = Ok (out, e) /\
      (exists Y, oS ++ rS = out ++ Y) /\
      (e = None -> out = oS ++ rS) /\
      (forall c, e = Some c -> c <> E_INTERRUPTED /\ In c (script_errs inner)) /\
      (Forall (fun c => c = E_INTERRUPTED) (script_errs inner) -> e = None /\ out = oS ++ rS).
Proof.
  intros (Htot & Hresp & Hchunk) st0 Hnil inner sizes stS oS rS Hok Hb Hs HS.
  destruct (Htot st0 (script_data inner) Hb) as (s' & o & r & E & _ & Hl & _ & _).
  rewrite HS in E. injection E as <- <- <-.
  destruct (drive_ok a Htot Hresp Hchunk st0 (script_data inner) stS oS rS Hb HS sizes Hs
              (bcj_drive_calls inner sizes) (bcj_read_fuel inner) (mkR st0 0 0 0 [] false None) inner [] [] sizes)
    as (out & e & E & HY & Hnone & Hsome).
  - apply rinv_init; [exact Hnil|reflexivity].
  - exact Hok.
  - exact Hs.
  - cbn [r_err]. discriminate.
  - unfold bcj_read_fuel. lia.
  - cbn [length skipn]. rewrite app_length. pose proof (script_errs_length inner).
    unfold bcj_drive_calls. nia.
  - cbn [length skipn] in *. exists out, e. split; [exact E|]. split; [exact HY|]. split; [exact Hnone|].
    assert (Hsome' : forall c, e = Some c -> c <> E_INTERRUPTED /\ In c (script_errs inner)).
    { intros c Hc. destruct (Hsome c Hc) as [H8 [Hin|Hr]]; [auto|cbn [r_err] in Hr; discriminate]. }
    split; [exact Hsome'|].
    intros Hall. assert (e = None).
    { destruct e as [c|]; [|reflexivity]. destruct (Hsome' c eq_refl) as [H8 Hin].
      rewrite Forall_forall in Hall. specialize (Hall c Hin). contradiction. }
    split; [assumption|auto].
Qed.
