(* Filter/BcjX86Proofs.v — the x86 filter: the conversion loop terminates within two rounds, one
   step of the outer loop in closed form (no failure is reachable), the loop without failures,
   equivalence of loop states that no later step can tell apart (in particular the state saved at
   the end of a call vs. the state inside the loop), and with these the stream facts. *)
From LzVerif Require Import Base.Bytes Filter.Bcj Filter.BcjStream Filter.BcjArithProofs
  Filter.BcjWordProofs Filter.BcjCodeProofs Filter.BcjStreamProofs.
Ltac Zify.zify_post_hook ::= Z.div_mod_to_equations.

(* flipping the low k bits *)
Lemma lxor_ones_mod x k : 0 <= k -> Z.lxor x (Z.ones k) mod 2 ^ k = 2 ^ k - 1 - x mod 2 ^ k.
Proof.
  intros Hk.
  assert (E : Z.lxor x (Z.ones k) mod 2 ^ k = Z.lnot x mod 2 ^ k).
  { apply Z.bits_inj'; intros n Hn.
    destruct (Z.lt_ge_cases n k) as [Hlt|Hge].
    - rewrite !Z.mod_pow2_bits_low by lia. rewrite Z.lxor_spec, Z.ones_spec_low, Z.lnot_spec by lia.
      rewrite xorb_true_r. reflexivity.
    - rewrite !Z.mod_pow2_bits_high by lia. reflexivity. }
  rewrite E. unfold Z.lnot. assert (0 < 2 ^ k) by (apply Z.pow_pos_nonneg; lia). 
  pose proof (Z.div_mod x (2^k) ltac:(lia)). pose proof (Z.mod_pos_bound x (2^k) ltac:(lia)).
  replace (Z.pred (- x)) with ((2 ^ k - 1 - x mod 2 ^ k) + (- (x / 2 ^ k) - 1) * 2 ^ k) by lia.
  rewrite Z.mod_add by lia. apply Z.mod_small. lia.
Qed.

Lemma lxor_ones_high x k : 0 <= k -> Z.lxor x (Z.ones k) / 2 ^ k = x / 2 ^ k.
Proof.
  intros Hk. apply Z.bits_inj'; intros n Hn.
  rewrite !Z.div_pow2_bits by lia. rewrite Z.lxor_spec, Z.ones_spec_high by lia. apply xorb_false_r.
Qed.

Lemma lxor_ones_eq x k : 0 <= k -> Z.lxor x (Z.ones k) = x + 2 ^ k - 1 - 2 * (x mod 2 ^ k).
Proof.
  intros Hk. assert (0 < 2 ^ k) by (apply Z.pow_pos_nonneg; lia).
  pose proof (lxor_ones_mod x k Hk). pose proof (lxor_ones_high x k Hk).
  pose proof (Z.div_mod (Z.lxor x (Z.ones k)) (2 ^ k) ltac:(lia)).
  pose proof (Z.div_mod x (2 ^ k) ltac:(lia)). lia.
Qed.

(* the byte of a 32-bit value just below bit k (k = 8, 16, 24) *)
Definition tb (k x : Z) : Z := (x / 2 ^ (k - 8)) mod 256.
Definition is_zf (b : Z) : bool := (b =? 0) || (b =? 255).

Lemma test_86_zf b : test_86_ms_byte b = is_zf b.
Proof. reflexivity. Qed.

(* the value the conversion loop computes, for the field width k = 32 - 8 * bit number *)
Definition x86_conv_val (enc : bool) (p k src : Z) : Z :=
  let d1 := addsub enc src p in
  if is_zf (tb k d1) then addsub enc (s32 (d1 + 2 ^ k - 1 - 2 * (d1 mod 2 ^ k))) p else d1.

Definition mask_k (m : Z) : Z := if m =? 1 then 24 else if m =? 2 then 16 else 8.

Lemma x86_conv_zero fuel enc p src : x86_conv (S fuel) enc p 0 src = Ok (addsub enc src p).
Proof. reflexivity. Qed.

Lemma conv_case enc p src k sh (X : Z -> outcome Z) :
  (k = 24 /\ sh = 16) \/ (k = 16 /\ sh = 8) \/ (k = 8 /\ sh = 0) ->
  is_zf (tb k src) = false ->
  (let dest := addsub enc src p in
   if negb (test_86_ms_byte (u8 (Z.land (Z.shiftr dest sh) 255))) then Ok dest
   else
     let dest2 := addsub enc (s32 (Z.lxor dest (Z.ones k))) p in
     if negb (test_86_ms_byte (u8 (Z.land (Z.shiftr dest2 sh) 255))) then Ok dest2
     else X dest2) = Ok (x86_conv_val enc p k src) /\
  is_zf (tb k (x86_conv_val enc p k src)) = false.
Proof.
  intros Hk Hs. cbv zeta.
  assert (Etb : forall d, u8 (Z.land (Z.shiftr d sh) 255) = tb k d).
  { intros d. unfold tb, u8. destruct Hk as [[-> ->]|[[-> ->]|[-> ->]]].
    - change (24 - 8) with 16. shift_lits. land_lits. lia.
    - change (16 - 8) with 8. shift_lits. land_lits. lia.
    - change (8 - 8) with 0. rewrite Z.shiftr_0_r. land_lits. change (2 ^ 0) with 1. rewrite Z.div_1_r. lia. }
  rewrite !Etb, !test_86_zf.
  assert (Hk0 : 0 <= k) by (destruct Hk as [[-> _]|[[-> _]|[-> _]]]; lia).
  rewrite lxor_ones_eq by assumption.
  unfold x86_conv_val. cbv zeta.
  set (d1 := addsub enc src p).
  destruct (is_zf (tb k d1)) eqn:E1; cbn [negb]; [|split; [reflexivity|exact E1]].
  set (d2 := addsub enc (s32 (d1 + 2 ^ k - 1 - 2 * (d1 mod 2 ^ k))) p).
  assert (Ht : tb k d2 = 255 - tb k src).
  { unfold d2, d1, tb, addsub, s32.
    destruct Hk as [[-> _]|[[-> _]|[-> _]]]; destruct enc.
    all: try change (24 - 8) with 16; try change (16 - 8) with 8; try change (8 - 8) with 0.
    all: try change (2 ^ 24) with 16777216; try change (2 ^ 16) with 65536; try change (2 ^ 8) with 256; try change (2 ^ 0) with 1.
    all: lia. }
  assert (Hz : is_zf (tb k d2) = false).
  { rewrite Ht. unfold is_zf in *. apply orb_false_iff in Hs. destruct Hs as [Ha Hb].
    apply Z.eqb_neq in Ha, Hb. apply orb_false_iff. split; apply Z.eqb_neq; lia. }
  change (test_86_ms_byte (tb k d2)) with (is_zf (tb k d2)). rewrite Hz. cbn [negb]. split; reflexivity.
Qed.

Lemma x86_conv_ok enc p m src :
  (m = 1 \/ m = 2 \/ m = 4) -> is_zf (tb (mask_k m) src) = false ->
  x86_conv 3 enc p m src = Ok (x86_conv_val enc p (mask_k m) src) /\
  is_zf (tb (mask_k m) (x86_conv_val enc p (mask_k m) src)) = false.
Proof.
  intros Hm Hsrc. unfold mask_k in *.
  destruct Hm as [-> | [-> | ->]]; cbn [Z.eqb Pos.eqb] in *.
  - exact (conv_case enc p src 24 16 (fun d2 => x86_conv 1 enc p 1 (s32 (Z.lxor d2 (Z.ones 24)))) ltac:(auto) Hsrc).
  - exact (conv_case enc p src 16 8 (fun d2 => x86_conv 1 enc p 2 (s32 (Z.lxor d2 (Z.ones 16)))) ltac:(auto) Hsrc).
  - exact (conv_case enc p src 8 0 (fun d2 => x86_conv 1 enc p 4 (s32 (Z.lxor d2 (Z.ones 8)))) ltac:(auto) Hsrc).
Qed.

(* ------------------------------------------------------------------------------------------ *)
(* one step of the outer loop, in closed form *)
Definition is_op (b : Z) : bool := (b =? 233) || (b =? 232).
Definition x86_eff (d pm : Z) : Z := if 3 <? d then 0 else (pm * 2 ^ (d - 1)) mod 8.
Definition x86_blocked (m b1 b2 b3 : Z) : bool :=
  if m =? 0 then false else if m =? 1 then is_zf b3 else if m =? 2 then is_zf b2
  else if m =? 4 then is_zf b1 else true.
Definition x86_src (b1 b2 b3 b4 : Z) : Z := s32 (b1 + 256 * b2 + 65536 * b3 + 16777216 * b4).
Definition x86_dest (enc : bool) (p m src : Z) : Z :=
  if m =? 0 then addsub enc src p else x86_conv_val enc p (mask_k m) src.
Definition x86_out (pp m dest : Z) : x86_act :=
  XConv pp m (dest mod 256) ((dest / 256) mod 256) ((dest / 65536) mod 256)
        (255 * ((dest / 16777216) mod 2)).

Definition x86_step_spec (enc : bool) (pos i pp pm b0 b1 b2 b3 b4 : Z) : x86_act :=
  if is_op b0 then
    let m := x86_eff (i - pp) pm in
    if x86_blocked m b1 b2 b3 then XSkip i (2 * m + 1)
    else if is_zf b4 then x86_out i m (x86_dest enc (pc32 pos i) m (x86_src b1 b2 b3 b4))
    else XSkip i (2 * m + 1)
  else XSkip pp pm.

Lemma land_lnot3 d : 0 <= d -> (Z.land d (Z.lnot 3) =? 0) = (d <=? 3).
Proof.
  intros Hd. rewrite <- Z.ldiff_land. change 3 with (Z.ones 2) at 1.
  rewrite Z.ldiff_ones_r by lia. rewrite Z.shiftl_mul_pow2, Z.shiftr_div_pow2 by lia.
  change (2 ^ 2) with 4. apply eq_true_iff_eq. rewrite Z.eqb_eq, Z.leb_le. lia.
Qed.

Lemma x86_src_eq b1 b2 b3 b4 : byte b1 -> byte b2 -> byte b3 -> byte b4 ->
  Z.lor (Z.lor (Z.lor b1 (Z.shiftl b2 8)) (Z.shiftl b3 16)) (s32 (Z.shiftl b4 24)) = x86_src b1 b2 b3 b4.
Proof.
  unfold byte, x86_src. intros H1 H2 H3 H4. shift_lits.
  lor_plus 8. lor_plus 16.
  rewrite (lor_add_mod' (s32 (b4 * 16777216)) (b3 * 65536 + (b2 * 256 + b1)) 24) by (change (2 ^ 24) with 16777216; unfold s32; lia).
  unfold s32. lia.
Qed.

Lemma x86_out_eq pp m dest :
  XConv pp m (u8 dest) (u8 (Z.shiftr dest 8)) (u8 (Z.shiftr dest 16))
        (u8 (Z.lnot (Z.land (Z.shiftr dest 24) 1 - 1))) = x86_out pp m dest.
Proof.
  unfold x86_out, u8. shift_lits. land_lits. unfold Z.lnot.
  f_equal; lia.
Qed.

Ltac zth_eval :=
  repeat match goal with
  | |- context [zth ?T ?k] =>
      let v := eval vm_compute in (zth T k) in progress change (zth T k) with v
  end.

Lemma x86_step_ok enc pos i pp pm b0 b1 b2 b3 b4 :
  byte b0 -> byte b1 -> byte b2 -> byte b3 -> byte b4 -> 1 <= i - pp ->
  x86_step enc pos i pp pm b0 b1 b2 b3 b4 = Ok (x86_step_spec enc pos i pp pm b0 b1 b2 b3 b4).
Proof.
  intros H0 H1 H2 H3 H4 Hd. unfold x86_step, x86_step_spec. fold (is_op b0).
  destruct (is_op b0); [|reflexivity]. cbn [negb].
  rewrite land_lnot3 by lia. rewrite x86_src_eq by assumption.
  change test_86_ms_byte with is_zf.
  set (d := i - pp) in *. set (src := x86_src b1 b2 b3 b4). set (p := pc32 pos i).
  unfold x86_eff.
  destruct (Z.leb_spec d 3) as [Hle|Hgt]; cbn [negb].
  - destruct (Z.ltb_spec 3 d) as [?|_]; [lia|].
    unfold shl_u32.
    destruct (Z.ltb_spec (d - 1) 0) as [?|_]; [lia|]. destruct (Z.ltb_spec 31 (d - 1)) as [?|_]; [lia|].
    cbn [orb obind].
    assert (Em : Z.land (u32 (Z.shiftl pm (d - 1))) 7 = (pm * 2 ^ (d - 1)) mod 8).
    { rewrite Z.shiftl_mul_pow2 by lia. unfold u32. land_lits.
      assert (Hd3 : d = 1 \/ d = 2 \/ d = 3) by lia.
      destruct Hd3 as [-> | [-> | ->]]; cbn [Z.sub Z.add Z.opp Z.pos_sub Pos.pred_double Z.pow Z.pow_pos Pos.iter Z.mul Pos.mul]; lia. }
    rewrite Em. set (m := (pm * 2 ^ (d - 1)) mod 8).
    assert (Hm : m = 0 \/ m = 1 \/ m = 2 \/ m = 3 \/ m = 4 \/ m = 5 \/ m = 6 \/ m = 7) by (unfold m; lia).
    unfold x86_blocked, x86_dest.
    destruct Hm as [-> | [-> | [-> | [-> | [-> | [-> | [-> | ->]]]]]]];
      cbn [Z.eqb Pos.eqb]; zth_eval; cbn [negb obind]; zth_eval; cbn [negb obind];
      try reflexivity.
    + (* m = 0 *)
      destruct (is_zf b4) eqn:E4; [|reflexivity].
      rewrite x86_conv_zero. cbn [obind]. rewrite x86_out_eq. reflexivity.
    + (* m = 1 : the byte looked at is b3 *)
      destruct (is_zf b3) eqn:E3; [reflexivity|].
      destruct (is_zf b4) eqn:E4; [|reflexivity].
      destruct (x86_conv_ok enc p 1 src ltac:(auto)) as [Ec _].
      { unfold mask_k. cbn [Z.eqb Pos.eqb]. replace (tb 24 src) with b3; [exact E3|].
        unfold tb, src, x86_src, s32, byte in *. change (2 ^ (24 - 8)) with 65536. lia. }
      rewrite Ec. cbn [obind]. rewrite x86_out_eq. reflexivity.
    + (* m = 2 : b2 *)
      destruct (is_zf b2) eqn:E3; [reflexivity|].
      destruct (is_zf b4) eqn:E4; [|reflexivity].
      destruct (x86_conv_ok enc p 2 src ltac:(auto)) as [Ec _].
      { unfold mask_k. cbn [Z.eqb Pos.eqb]. replace (tb 16 src) with b2; [exact E3|].
        unfold tb, src, x86_src, s32, byte in *. change (2 ^ (16 - 8)) with 256. lia. }
      rewrite Ec. cbn [obind]. rewrite x86_out_eq. reflexivity.
    + (* m = 4 : b1 *)
      destruct (is_zf b1) eqn:E3; [reflexivity|].
      destruct (is_zf b4) eqn:E4; [|reflexivity].
      destruct (x86_conv_ok enc p 4 src ltac:(auto)) as [Ec _].
      { unfold mask_k. cbn [Z.eqb Pos.eqb]. replace (tb 8 src) with b1; [exact E3|].
        unfold tb, src, x86_src, s32, byte in *. change (2 ^ (8 - 8)) with 1. lia. }
      rewrite Ec. cbn [obind]. rewrite x86_out_eq. reflexivity.
  - destruct (Z.ltb_spec 3 d) as [_|?]; [|lia].
    cbn [obind Z.eqb]. unfold x86_blocked, x86_dest. cbn [Z.eqb].
    destruct (is_zf b4) eqn:E4; [|reflexivity].
    rewrite x86_conv_zero. cbn [obind]. rewrite x86_out_eq. reflexivity.
Qed.

(* ------------------------------------------------------------------------------------------ *)
(* the loop with the closed-form step: no failure possible *)
Fixpoint x86_gop (enc : bool) (pos i pp pm : Z) (l : list Z) : x86_res :=
  match l with
  | b0 :: l1 =>
      match l1 with
      | b1 :: b2 :: b3 :: b4 :: t =>
          match x86_step_spec enc pos i pp pm b0 b1 b2 b3 b4 with
          | XSkip pp' pm' => x86_push [b0] (x86_gop enc pos (i + 1) pp' pm' l1)
          | XConv pp' pm' c1 c2 c3 c4 => x86_push [b0; c1; c2; c3; c4] (x86_gop enc pos (i + 5) pp' pm' t)
          end
      | _ => (i, pp, pm, [], l)
      end
  | [] => (i, pp, pm, [], l)
  end.

Lemma x86_gop_short enc pos i pp pm l : (length l < 5)%nat -> x86_gop enc pos i pp pm l = (i, pp, pm, [], l).
Proof.
  intros H. destruct l as [|b0 [|b1 [|b2 [|b3 [|b4 t]]]]]; try reflexivity. cbn [length] in H. lia.
Qed.

Lemma x86_gop_step enc pos i pp pm b0 b1 b2 b3 b4 t :
  x86_gop enc pos i pp pm (b0 :: b1 :: b2 :: b3 :: b4 :: t) =
  match x86_step_spec enc pos i pp pm b0 b1 b2 b3 b4 with
  | XSkip pp' pm' => x86_push [b0] (x86_gop enc pos (i + 1) pp' pm' (b1 :: b2 :: b3 :: b4 :: t))
  | XConv pp' pm' c1 c2 c3 c4 => x86_push [b0; c1; c2; c3; c4] (x86_gop enc pos (i + 5) pp' pm' t)
  end.
Proof. reflexivity. Qed.

Lemma x86_go_short enc pos i pp pm l : (length l < 5)%nat -> x86_go enc pos i pp pm l = Ok (i, pp, pm, [], l).
Proof.
  intros H. destruct l as [|b0 [|b1 [|b2 [|b3 [|b4 t]]]]]; try reflexivity. cbn [length] in H. lia.
Qed.

Lemma x86_go_step enc pos i pp pm b0 b1 b2 b3 b4 t :
  x86_go enc pos i pp pm (b0 :: b1 :: b2 :: b3 :: b4 :: t) =
  (do act <- x86_step enc pos i pp pm b0 b1 b2 b3 b4;
   match act with
   | XSkip pp' pm' => do r <- x86_go enc pos (i + 1) pp' pm' (b1 :: b2 :: b3 :: b4 :: t); Ok (x86_push [b0] r)
   | XConv pp' pm' c1 c2 c3 c4 => do r <- x86_go enc pos (i + 5) pp' pm' t; Ok (x86_push [b0; c1; c2; c3; c4] r)
   end).
Proof. reflexivity. Qed.

(* where the step leaves prev_pos *)
Lemma x86_step_spec_pp enc pos i pp pm b0 b1 b2 b3 b4 : pp < i ->
  match x86_step_spec enc pos i pp pm b0 b1 b2 b3 b4 with
  | XSkip pp' _ => pp' < i + 1
  | XConv pp' _ _ _ _ _ => pp' < i + 5
  end.
Proof.
  intros H. unfold x86_step_spec, x86_out. destruct (is_op b0); [|lia].
  cbv zeta. destruct (x86_blocked _ _ _ _); [lia|]. destruct (is_zf b4); lia.
Qed.

Lemma x86_go_ok enc pos n : forall l i pp pm, (length l <= n)%nat -> bytes_ok l = true -> pp < i ->
  x86_go enc pos i pp pm l = Ok (x86_gop enc pos i pp pm l).
Proof.
  induction n as [|n IH]; intros l i pp pm Hn Hb Hpp.
  - destruct l; [reflexivity|cbn [length] in Hn; lia].
  - destruct (Nat.lt_ge_cases (length l) 5) as [Hs|Hs].
    + rewrite x86_go_short, x86_gop_short by assumption. reflexivity.
    + destruct l as [|b0 [|b1 [|b2 [|b3 [|b4 t]]]]]; try (cbn [length] in Hs; lia).
      rewrite x86_go_step, x86_gop_step.
      pose proof Hb as Hb'.
      apply bytes_ok_cons in Hb; destruct Hb as [H0 Hb1]. pose proof Hb1 as Hb.
      apply bytes_ok_cons in Hb; destruct Hb as [H1 Hb].
      apply bytes_ok_cons in Hb; destruct Hb as [H2 Hb].
      apply bytes_ok_cons in Hb; destruct Hb as [H3 Hb].
      apply bytes_ok_cons in Hb; destruct Hb as [H4 Hb].
      rewrite x86_step_ok by (assumption || lia). cbn [obind].
      pose proof (x86_step_spec_pp enc pos i pp pm b0 b1 b2 b3 b4 Hpp) as Hpp'.
      destruct (x86_step_spec enc pos i pp pm b0 b1 b2 b3 b4) as [pp' pm'|pp' pm' c1 c2 c3 c4].
      * rewrite IH by (assumption || (cbn [length] in *; lia)). reflexivity.
      * rewrite IH by (assumption || (cbn [length] in *; lia)). reflexivity.
Qed.

(* bytes written by a conversion *)
Lemma x86_step_spec_bytes enc pos i pp pm b0 b1 b2 b3 b4 :
  match x86_step_spec enc pos i pp pm b0 b1 b2 b3 b4 with
  | XSkip _ _ => True
  | XConv _ _ c1 c2 c3 c4 => byte c1 /\ byte c2 /\ byte c3 /\ byte c4
  end.
Proof.
  unfold x86_step_spec, x86_out. destruct (is_op b0); [|exact I].
  cbv zeta. destruct (x86_blocked _ _ _ _); [exact I|]. destruct (is_zf b4); [|exact I].
  unfold byte. repeat split; lia.
Qed.

(* shape of the result *)
Lemma x86_gop_shape enc pos n : forall l i pp pm, (length l <= n)%nat -> bytes_ok l = true -> pp < i ->
  let '(i', pp', pm', o, r) := x86_gop enc pos i pp pm l in
  i' = i + zlen o /\ pp' < i' /\ skipn (length o) l = r /\ (length o + length r = length l)%nat /\
  (length r < 5)%nat /\ bytes_ok o = true.
Proof.
  induction n as [|n IH]; intros l i pp pm Hn Hb Hpp.
  - destruct l; [|cbn [length] in Hn; lia]. cbn. repeat split; auto; lia.
  - destruct (Nat.lt_ge_cases (length l) 5) as [Hs|Hs].
    + rewrite x86_gop_short by assumption. rewrite zlen_nil. cbn [length skipn]. repeat split; auto; lia.
    + destruct l as [|b0 [|b1 [|b2 [|b3 [|b4 t]]]]]; try (cbn [length] in Hs; lia).
      rewrite x86_gop_step.
      apply bytes_ok_cons in Hb; destruct Hb as [H0 Hb1]. pose proof Hb1 as Hb.
      apply bytes_ok_cons in Hb; destruct Hb as [H1 Hb].
      apply bytes_ok_cons in Hb; destruct Hb as [H2 Hb].
      apply bytes_ok_cons in Hb; destruct Hb as [H3 Hb].
      apply bytes_ok_cons in Hb; destruct Hb as [H4 Hb].
      pose proof (x86_step_spec_pp enc pos i pp pm b0 b1 b2 b3 b4 Hpp) as Hpp'.
      pose proof (x86_step_spec_bytes enc pos i pp pm b0 b1 b2 b3 b4) as Hby.
      destruct (x86_step_spec enc pos i pp pm b0 b1 b2 b3 b4) as [pp' pm'|pp' pm' c1 c2 c3 c4].
      * specialize (IH (b1 :: b2 :: b3 :: b4 :: t) (i + 1) pp' pm' ltac:(cbn [length] in *; lia) Hb1 Hpp').
        destruct (x86_gop enc pos (i + 1) pp' pm' (b1 :: b2 :: b3 :: b4 :: t)) as [[[[i2 pp2] pm2] o2] r2].
        cbn [x86_push app]. destruct IH as (E1 & E2 & E3 & E4 & E5 & E6).
        rewrite zlen_cons. cbn [length skipn] in *. repeat split; try lia; try assumption.
        apply bytes_ok_cons. auto.
      * specialize (IH t (i + 5) pp' pm' ltac:(cbn [length] in *; lia) Hb Hpp').
        destruct (x86_gop enc pos (i + 5) pp' pm' t) as [[[[i2 pp2] pm2] o2] r2].
        cbn [x86_push app]. destruct IH as (E1 & E2 & E3 & E4 & E5 & E6).
        destruct Hby as (C1 & C2 & C3 & C4).
        rewrite !zlen_cons. cbn [length skipn] in *. repeat split; try lia; try assumption.
        repeat (apply bytes_ok_cons; split; [assumption|]). assumption.
Qed.

(* chunking of the loop *)
Lemma x86_gop_app enc pos n : forall A B i pp pm, (length A <= n)%nat ->
  x86_gop enc pos i pp pm (A ++ B) =
  let '(iA, ppA, pmA, oA, rA) := x86_gop enc pos i pp pm A in
  let '(i2, pp2, pm2, oB, rB) := x86_gop enc pos iA ppA pmA (rA ++ B) in
  (i2, pp2, pm2, oA ++ oB, rB).
Proof.
  induction n as [|n IH]; intros A B i pp pm Hn.
  - destruct A; [|cbn [length] in Hn; lia]. cbn [app x86_gop].
    destruct (x86_gop enc pos i pp pm B) as [[[[i2 pp2] pm2] o2] r2]. reflexivity.
  - destruct (Nat.lt_ge_cases (length A) 5) as [Hs|Hs].
    + rewrite (x86_gop_short enc pos i pp pm A) by assumption.
      destruct (x86_gop enc pos i pp pm (A ++ B)) as [[[[i2 pp2] pm2] o2] r2]. reflexivity.
    + destruct A as [|b0 [|b1 [|b2 [|b3 [|b4 t]]]]]; try (cbn [length] in Hs; lia).
      cbn [app]. rewrite !x86_gop_step.
      destruct (x86_step_spec enc pos i pp pm b0 b1 b2 b3 b4) as [pp' pm'|pp' pm' c1 c2 c3 c4].
      * change (b1 :: b2 :: b3 :: b4 :: t ++ B) with ((b1 :: b2 :: b3 :: b4 :: t) ++ B).
        rewrite IH by (cbn [length] in *; lia).
        destruct (x86_gop enc pos (i + 1) pp' pm' (b1 :: b2 :: b3 :: b4 :: t)) as [[[[iA ppA] pmA] oA] rA].
        cbn [x86_push].
        destruct (x86_gop enc pos iA ppA pmA (rA ++ B)) as [[[[i2 pp2] pm2] o2] r2]. reflexivity.
      * rewrite IH by (cbn [length] in *; lia).
        destruct (x86_gop enc pos (i + 5) pp' pm' t) as [[[[iA ppA] pmA] oA] rA].
        cbn [x86_push].
        destruct (x86_gop enc pos iA ppA pmA (rA ++ B)) as [[[[i2 pp2] pm2] o2] r2]. reflexivity.
Qed.

(* ------------------------------------------------------------------------------------------ *)
(* Two loop states that no later step can tell apart: positions relative to i (r = prev_pos - i)
   and masks that give the same effective mask at every later opcode position. *)
Definition xrel (r1 pm1 r2 pm2 : Z) : Prop :=
  r1 < 0 /\ r2 < 0 /\ forall x, 0 <= x -> x86_eff (x - r1) pm1 = x86_eff (x - r2) pm2.

Lemma xrel_refl r pm : r < 0 -> xrel r pm r pm.
Proof. intros H. repeat split; auto. Qed.

Lemma xrel_shift r1 pm1 r2 pm2 : xrel r1 pm1 r2 pm2 -> xrel (r1 - 1) pm1 (r2 - 1) pm2.
Proof.
  intros (H1 & H2 & H). split; [lia|]. split; [lia|]. intros x Hx.
  replace (x - (r1 - 1)) with (x + 1 - r1) by lia. replace (x - (r2 - 1)) with (x + 1 - r2) by lia.
  apply H. lia.
Qed.

Definition act_rel (i1 i2 : Z) (a1 a2 : x86_act) : Prop :=
  match a1, a2 with
  | XSkip pa ma, XSkip pb mb => xrel (pa - (i1 + 1)) ma (pb - (i2 + 1)) mb
  | XConv pa ma c1 c2 c3 c4, XConv pb mb d1 d2 d3 d4 =>
      c1 = d1 /\ c2 = d2 /\ c3 = d3 /\ c4 = d4 /\ xrel (pa - (i1 + 5)) ma (pb - (i2 + 5)) mb
  | _, _ => False
  end.

Lemma x86_step_rel enc pos1 i1 pp1 pm1 pos2 i2 pp2 pm2 b0 b1 b2 b3 b4 :
  xrel (pp1 - i1) pm1 (pp2 - i2) pm2 -> pc32 pos1 i1 = pc32 pos2 i2 ->
  act_rel i1 i2 (x86_step_spec enc pos1 i1 pp1 pm1 b0 b1 b2 b3 b4)
                (x86_step_spec enc pos2 i2 pp2 pm2 b0 b1 b2 b3 b4).
Proof.
  intros Hrel Hpc. unfold x86_step_spec. destruct (is_op b0).
  - destruct Hrel as (H1 & H2 & H).
    assert (Em : x86_eff (i1 - pp1) pm1 = x86_eff (i2 - pp2) pm2).
    { specialize (H 0 ltac:(lia)). replace (0 - (pp1 - i1)) with (i1 - pp1) in H by lia.
      replace (0 - (pp2 - i2)) with (i2 - pp2) in H by lia. exact H. }
    cbv zeta. rewrite Em, Hpc. set (m := x86_eff (i2 - pp2) pm2).
    destruct (x86_blocked m b1 b2 b3).
    + cbn [act_rel]. replace (i1 - (i1 + 1)) with (-1) by lia. replace (i2 - (i2 + 1)) with (-1) by lia.
      apply xrel_refl. lia.
    + destruct (is_zf b4).
      * unfold x86_out. cbn [act_rel]. do 4 (split; [reflexivity|]).
        replace (i1 - (i1 + 5)) with (-5) by lia. replace (i2 - (i2 + 5)) with (-5) by lia.
        apply xrel_refl. lia.
      * cbn [act_rel]. replace (i1 - (i1 + 1)) with (-1) by lia. replace (i2 - (i2 + 1)) with (-1) by lia.
        apply xrel_refl. lia.
  - cbn [act_rel]. replace (pp1 - (i1 + 1)) with (pp1 - i1 - 1) by lia.
    replace (pp2 - (i2 + 1)) with (pp2 - i2 - 1) by lia. apply xrel_shift. exact Hrel.
Qed.

Lemma x86_gop_rel enc n : forall l pos1 i1 pp1 pm1 pos2 i2 pp2 pm2, (length l <= n)%nat ->
  xrel (pp1 - i1) pm1 (pp2 - i2) pm2 -> (forall j, pc32 pos1 (i1 + j) = pc32 pos2 (i2 + j)) ->
  let '(i1', pp1', pm1', o1, r1) := x86_gop enc pos1 i1 pp1 pm1 l in
  let '(i2', pp2', pm2', o2, r2) := x86_gop enc pos2 i2 pp2 pm2 l in
  o1 = o2 /\ r1 = r2 /\ i1' - i1 = i2' - i2 /\ xrel (pp1' - i1') pm1' (pp2' - i2') pm2'.
Proof.
  induction n as [|n IH]; intros l pos1 i1 pp1 pm1 pos2 i2 pp2 pm2 Hn Hrel Hpc.
  - destruct l; [|cbn [length] in Hn; lia]. cbn [x86_gop].
    split; [reflexivity|split; [reflexivity|split; [lia|exact Hrel]]].
  - destruct (Nat.lt_ge_cases (length l) 5) as [Hs|Hs].
    + rewrite !x86_gop_short by assumption.
      split; [reflexivity|split; [reflexivity|split; [lia|exact Hrel]]].
    + destruct l as [|b0 [|b1 [|b2 [|b3 [|b4 t]]]]]; try (cbn [length] in Hs; lia).
      rewrite !x86_gop_step.
      pose proof (Hpc 0) as Hpc0. rewrite !Z.add_0_r in Hpc0.
      pose proof (x86_step_rel enc pos1 i1 pp1 pm1 pos2 i2 pp2 pm2 b0 b1 b2 b3 b4 Hrel Hpc0) as Hact.
      destruct (x86_step_spec enc pos1 i1 pp1 pm1 b0 b1 b2 b3 b4) as [pa ma|pa ma c1 c2 c3 c4];
        destruct (x86_step_spec enc pos2 i2 pp2 pm2 b0 b1 b2 b3 b4) as [pb mb|pb mb d1 d2 d3 d4];
        cbn [act_rel] in Hact; try contradiction.
      * specialize (IH (b1 :: b2 :: b3 :: b4 :: t) pos1 (i1 + 1) pa ma pos2 (i2 + 1) pb mb
                      ltac:(cbn [length] in *; lia) Hact).
        destruct (x86_gop enc pos1 (i1 + 1) pa ma (b1 :: b2 :: b3 :: b4 :: t)) as [[[[i1' pp1'] pm1'] o1] r1].
        destruct (x86_gop enc pos2 (i2 + 1) pb mb (b1 :: b2 :: b3 :: b4 :: t)) as [[[[i2' pp2'] pm2'] o2] r2].
        cbn [x86_push]. destruct IH as (E1 & E2 & E3 & E4).
        { intros j. replace (i1 + 1 + j) with (i1 + (1 + j)) by lia. replace (i2 + 1 + j) with (i2 + (1 + j)) by lia. apply Hpc. }
        split; [congruence|split; [assumption|split; [lia|assumption]]].
      * destruct Hact as (-> & -> & -> & -> & Hact).
        specialize (IH t pos1 (i1 + 5) pa ma pos2 (i2 + 5) pb mb ltac:(cbn [length] in *; lia) Hact).
        destruct (x86_gop enc pos1 (i1 + 5) pa ma t) as [[[[i1' pp1'] pm1'] o1] r1].
        destruct (x86_gop enc pos2 (i2 + 5) pb mb t) as [[[[i2' pp2'] pm2'] o2] r2].
        cbn [x86_push]. destruct IH as (E1 & E2 & E3 & E4).
        { intros j. replace (i1 + 5 + j) with (i1 + (5 + j)) by lia. replace (i2 + 5 + j) with (i2 + (5 + j)) by lia. apply Hpc. }
        split; [congruence|split; [assumption|split; [lia|assumption]]].
Qed.

(* ------------------------------------------------------------------------------------------ *)
(* x86_code in closed form *)
Definition x86_epi (i pp pm : Z) : Z := if 3 <? i - pp then 0 else u32 (pm * 2 ^ (i - pp - 1)).

Lemma x86_epilogue_ok i pp pm : pp < i -> x86_epilogue i pp pm = Ok (x86_epi i pp pm).
Proof.
  intros H. unfold x86_epilogue, x86_epi. rewrite land_lnot3 by lia.
  destruct (Z.leb_spec (i - pp) 3); cbn [negb].
  - destruct (Z.ltb_spec 3 (i - pp)); [lia|]. unfold shl_u32.
    destruct (Z.ltb_spec (i - pp - 1) 0); [lia|]. destruct (Z.ltb_spec 31 (i - pp - 1)); [lia|].
    cbn [orb]. rewrite Z.shiftl_mul_pow2 by lia. reflexivity.
  - destruct (Z.ltb_spec 3 (i - pp)); [reflexivity|lia].
Qed.

Lemma x86_code_eq enc st buf : bytes_ok buf = true ->
  x86_code enc st buf =
  if zlen buf <? 5 then Ok (st, [], buf)
  else let '(i, pp, pm, o, r) := x86_gop enc (f_pos st) 0 (-1) (f_mask st) buf in
       Ok (mkF (u64 (f_pos st + i)) (x86_epi i pp pm), o, r).
Proof.
  intros Hb. unfold x86_code. destruct (zlen buf <? 5); [reflexivity|].
  rewrite (x86_go_ok enc (f_pos st) (length buf)) by (auto; lia). cbn [obind].
  pose proof (x86_gop_shape enc (f_pos st) (length buf) buf 0 (-1) (f_mask st) (le_n _) Hb ltac:(lia)) as Hsh.
  destruct (x86_gop enc (f_pos st) 0 (-1) (f_mask st) buf) as [[[[i pp] pm] o] r].
  destruct Hsh as (_ & Hpp & _). rewrite x86_epilogue_ok by assumption. reflexivity.
Qed.

Lemma x86_epi_eff i pp pm : pp < i -> x86_epi i pp pm mod 8 = x86_eff (i - pp) pm.
Proof.
  intros H. unfold x86_epi, x86_eff. destruct (Z.ltb_spec 3 (i - pp)); [reflexivity|].
  unfold u32. assert (Hd : i - pp = 1 \/ i - pp = 2 \/ i - pp = 3) by lia.
  destruct Hd as [-> | [-> | ->]]; cbn [Z.sub Z.add Z.opp Z.pos_sub Pos.pred_double Z.pow Z.pow_pos Pos.iter Z.mul Pos.mul]; lia.
Qed.

Lemma eff_cases d pm : 1 <= d ->
  x86_eff d pm = if d =? 1 then pm mod 8 else if d =? 2 then (pm * 2) mod 8 else if d =? 3 then (pm * 4) mod 8 else 0.
Proof.
  intros H. unfold x86_eff. destruct (Z.ltb_spec 3 d).
  - destruct (Z.eqb_spec d 1); [lia|]. destruct (Z.eqb_spec d 2); [lia|]. destruct (Z.eqb_spec d 3); [lia|]. reflexivity.
  - assert (Hd : d = 1 \/ d = 2 \/ d = 3) by lia.
    destruct Hd as [-> | [-> | ->]]; cbn [Z.eqb Pos.eqb Z.sub Z.add Z.opp Z.pos_sub Pos.pred_double Z.pow Z.pow_pos Pos.iter Z.mul Pos.mul]; f_equal; lia.
Qed.

(* the state as saved at the end of a call is as good as the state inside the loop *)
Lemma xrel_epi i pp pm : pp < i -> xrel (pp - i) pm (-1) (x86_epi i pp pm).
Proof.
  intros H. split; [lia|]. split; [lia|]. intros x Hx.
  replace (x - (pp - i)) with (x + (i - pp)) by lia. replace (x - -1) with (x + 1) by lia.
  rewrite !eff_cases by lia. unfold x86_epi, u32.
  set (d := i - pp) in *. assert (Hd : 1 <= d) by (unfold d; lia).
  destruct (Z.ltb_spec 3 d).
  - destruct (Z.eqb_spec (x + d) 1); [lia|]. destruct (Z.eqb_spec (x + d) 2); [lia|].
    destruct (Z.eqb_spec (x + d) 3); [lia|].
    destruct (Z.eqb_spec (x + 1) 1); [reflexivity|]. destruct (Z.eqb_spec (x + 1) 2); [reflexivity|].
    destruct (Z.eqb_spec (x + 1) 3); reflexivity.
  - assert (Hd3 : d = 1 \/ d = 2 \/ d = 3) by lia.
    assert (Hx3 : x = 0 \/ x = 1 \/ x = 2 \/ 3 <= x) by lia.
    destruct Hd3 as [-> | [-> | ->]]; destruct Hx3 as [-> | [-> | [-> | Hx3]]];
      cbn [Z.eqb Pos.eqb Z.sub Z.add Z.opp Z.pos_sub Pos.pred_double Pos.add Pos.succ Z.pow Z.pow_pos Pos.iter Z.mul Pos.mul];
      try lia.
    all: destruct (Z.eqb_spec (x + 1) 1); [lia|]; destruct (Z.eqb_spec (x + 1) 2); [lia|];
         destruct (Z.eqb_spec (x + 1) 3); [lia|].
    all: repeat match goal with |- context [?a =? ?b] => destruct (Z.eqb_spec a b); [lia|] end; reflexivity.
Qed.

Lemma xrel_mod8 pm1 pm2 : pm1 mod 8 = pm2 mod 8 -> xrel (-1) pm1 (-1) pm2.
Proof.
  intros H. split; [lia|]. split; [lia|]. intros x Hx. replace (x - -1) with (x + 1) by lia.
  rewrite !eff_cases by lia.
  destruct (Z.eqb_spec (x + 1) 1); [exact H|]. destruct (Z.eqb_spec (x + 1) 2); [lia|].
  destruct (Z.eqb_spec (x + 1) 3); [lia|]. reflexivity.
Qed.

(* ------------------------------------------------------------------------------------------ *)
Lemma zlen_lt5 (l : list Z) : (zlen l <? 5) = true <-> (length l < 5)%nat.
Proof. unfold zlen. rewrite Z.ltb_lt. lia. Qed.

Lemma code_facts_x86 enc : code_facts X86 enc.
Proof.
  split; [|split].
  - (* totality *)
    intros st buf Hb. change (bcj_code X86 enc st buf) with (x86_code enc st buf).
    rewrite x86_code_eq by assumption.
    destruct (zlen buf <? 5) eqn:E5.
    + apply zlen_lt5 in E5. exists st, [], buf. repeat split; auto; cbn [length]; lia.
    + pose proof (x86_gop_shape enc (f_pos st) (length buf) buf 0 (-1) (f_mask st) (le_n _) Hb ltac:(lia)) as Hsh.
      destruct (x86_gop enc (f_pos st) 0 (-1) (f_mask st) buf) as [[[[i pp] pm] o] r].
      destruct Hsh as (_ & _ & Hr & Hl & H5 & Hbo).
      eexists _, o, r. split; [reflexivity|]. repeat split; auto; lia.
  - (* states with the same low mask bits *)
    intros st1 st2 buf s1' o r [Hp Hm] Hb.
    change (bcj_code X86 enc st1 buf) with (x86_code enc st1 buf).
    change (bcj_code X86 enc st2 buf) with (x86_code enc st2 buf).
    rewrite !x86_code_eq by assumption.
    destruct (zlen buf <? 5).
    + intros E. injection E as <- <- <-. exists st2. split; [reflexivity|]. split; assumption.
    + pose proof (x86_gop_rel enc (length buf) buf (f_pos st1) 0 (-1) (f_mask st1) (f_pos st2) 0 (-1) (f_mask st2)
                    (le_n _) (xrel_mod8 _ _ Hm) ltac:(intros j; rewrite Hp; reflexivity)) as Hrel.
      pose proof (x86_gop_shape enc (f_pos st1) (length buf) buf 0 (-1) (f_mask st1) (le_n _) Hb ltac:(lia)) as Hs1.
      pose proof (x86_gop_shape enc (f_pos st2) (length buf) buf 0 (-1) (f_mask st2) (le_n _) Hb ltac:(lia)) as Hs2.
      destruct (x86_gop enc (f_pos st1) 0 (-1) (f_mask st1) buf) as [[[[i1 pp1] pm1] o1] r1].
      destruct (x86_gop enc (f_pos st2) 0 (-1) (f_mask st2) buf) as [[[[i2 pp2] pm2] o2] r2].
      destruct Hrel as (-> & -> & Hi & Hx). destruct Hs1 as (_ & Hpp1 & _). destruct Hs2 as (_ & Hpp2 & _).
      intros E. injection E as <- <- <-.
      eexists. split; [reflexivity|]. split; cbn [f_pos f_mask].
      * rewrite Hp. f_equal. lia.
      * rewrite !x86_epi_eff by assumption. destruct Hx as (_ & _ & Hx). specialize (Hx 0 ltac:(lia)).
        replace (0 - (pp1 - i1)) with (i1 - pp1) in Hx by lia. replace (0 - (pp2 - i2)) with (i2 - pp2) in Hx by lia.
        exact Hx.
  - (* chunking *)
    intros st A B st1 oA rA st2 oB rB HbA HbB.
    change (bcj_code X86 enc st A) with (x86_code enc st A).
    change (bcj_code X86 enc st1 (rA ++ B)) with (x86_code enc st1 (rA ++ B)).
    change (bcj_code X86 enc st (A ++ B)) with (x86_code enc st (A ++ B)).
    assert (HbAB : bytes_ok (A ++ B) = true) by (apply bytes_ok_app; auto).
    rewrite (x86_code_eq enc st A) by assumption.
    destruct (zlen A <? 5) eqn:EA5.
    + (* nothing was done on A *)
      intros E. injection E as <- <- <-. cbn [app]. intros E2. rewrite E2.
      exists st2. split; [reflexivity|apply feq_refl].
    + pose proof (x86_gop_shape enc (f_pos st) (length A) A 0 (-1) (f_mask st) (le_n _) HbA ltac:(lia)) as HsA.
      pose proof (x86_gop_app enc (f_pos st) (length A) A B 0 (-1) (f_mask st) (le_n _)) as Happ.
      destruct (x86_gop enc (f_pos st) 0 (-1) (f_mask st) A) as [[[[iA ppA] pmA] oA'] rA'] eqn:EgA.
      destruct HsA as (HiA & HppA & HrA & HlA & H5A & HboA).
      intros E. injection E as <- <- <-.
      assert (HbR : bytes_ok (rA' ++ B) = true).
      { apply bytes_ok_app. split; [rewrite <- HrA; apply bytes_ok_skipn; assumption|assumption]. }
      rewrite (x86_code_eq enc _ (rA' ++ B)) by assumption. cbn [f_pos f_mask].
      rewrite (x86_code_eq enc st (A ++ B)) by assumption.
      assert (EAB5 : (zlen (A ++ B) <? 5) = false).
      { apply Z.ltb_ge. apply Z.ltb_ge in EA5. rewrite zlen_app. pose proof (zlen_nonneg B). lia. }
      rewrite EAB5, Happ.
      destruct (zlen (rA' ++ B) <? 5) eqn:ER5.
      * (* the second call does nothing: then the continued loop does nothing either *)
        intros E. injection E as <- <- <-.
        apply zlen_lt5 in ER5. rewrite x86_gop_short by assumption.
        eexists. split; [reflexivity|apply feq_refl].
      * (* the loop continued from inside vs. restarted from the saved state *)
        pose proof (x86_gop_rel enc (length (rA' ++ B)) (rA' ++ B) (f_pos st) iA ppA pmA
                      (u64 (f_pos st + iA)) 0 (-1) (x86_epi iA ppA pmA) (le_n _)) as Hrel.
        replace (-1 - 0) with (-1) in Hrel by lia.
        specialize (Hrel (xrel_epi iA ppA pmA HppA)).
        specialize (Hrel ltac:(intros j; rewrite pc32_shift; f_equal; lia)).
        pose proof (x86_gop_shape enc (f_pos st) (length (rA' ++ B)) (rA' ++ B) iA ppA pmA (le_n _) HbR HppA) as Hs1.
        pose proof (x86_gop_shape enc (u64 (f_pos st + iA)) (length (rA' ++ B)) (rA' ++ B) 0 (-1) (x86_epi iA ppA pmA) (le_n _) HbR ltac:(lia)) as Hs2.
        destruct (x86_gop enc (f_pos st) iA ppA pmA (rA' ++ B)) as [[[[i1 pp1] pm1] o1] r1].
        destruct (x86_gop enc (u64 (f_pos st + iA)) 0 (-1) (x86_epi iA ppA pmA) (rA' ++ B)) as [[[[i2 pp2] pm2] o2] r2].
        destruct Hrel as (-> & -> & Hi & Hx). destruct Hs1 as (Hi1 & Hpp1 & _). destruct Hs2 as (Hi2 & Hpp2 & _).
        intros E. injection E as <- <- <-.
        eexists. split; [reflexivity|].
        split; cbn [f_pos f_mask].
        -- unfold u64. rewrite Zplus_mod_idemp_l. f_equal. lia.
        -- rewrite !x86_epi_eff by assumption. destruct Hx as (_ & _ & Hx). specialize (Hx 0 ltac:(lia)).
           replace (0 - (pp1 - i1)) with (i1 - pp1) in Hx by lia. replace (0 - (pp2 - i2)) with (i2 - pp2) in Hx by lia.
           symmetry. exact Hx.
Qed.
