(* Filter/Delta.v — model of src/filter/delta.rs (struct Delta, DeltaReader::read, DeltaWriter::write).
   Definitions only. *)
From LzVerif Require Export Base.Bytes.

(* struct Delta { distance: usize, history: [u8; 256], pos: u8 } *)
Record delta := mkDelta { d_dist : Z; d_hist : list Z; d_pos : Z }.

Definition delta_new (dist : Z) : delta := mkDelta dist (repeatn 0 256) 0.

(* (self.distance.wrapping_add(pos)) & DIS_MASK : the wrap at 2^64 is invisible under & 255 *)
Definition delta_idx (d : delta) : Z := ((d_dist d + d_pos d) mod 18446744073709551616) mod 256.

(* one iteration of Delta::encode; None = index panic (impossible under the length invariant) *)
Definition delta_enc_byte (d : delta) (x : Z) : option (delta * Z) :=
  match zth (d_hist d) (delta_idx d) with
  | None => None
  | Some h =>
      Some (mkDelta (d_dist d) (zupd (d_hist d) (d_pos d mod 256) x) ((d_pos d - 1) mod 256),
            (x - h) mod 256)
  end.

(* one iteration of Delta::decode *)
Definition delta_dec_byte (d : delta) (y : Z) : option (delta * Z) :=
  match zth (d_hist d) (delta_idx d) with
  | None => None
  | Some h =>
      let x := (y + h) mod 256 in
      Some (mkDelta (d_dist d) (zupd (d_hist d) (d_pos d mod 256) x) ((d_pos d - 1) mod 256), x)
  end.

Fixpoint delta_run (step : delta -> Z -> option (delta * Z)) (d : delta) (l : list Z)
  : option (delta * list Z) :=
  match l with
  | [] => Some (d, [])
  | x :: t =>
      match step d x with
      | None => None
      | Some (d1, y) =>
          match delta_run step d1 t with
          | None => None
          | Some (d2, ys) => Some (d2, y :: ys)
          end
      end
  end.

Definition delta_encode := delta_run delta_enc_byte.
Definition delta_decode := delta_run delta_dec_byte.

(* DeltaWriter over a perfect sink: every write() call encodes its slice with the carried state.
   A history of calls is a list of slices (empty slices and flushes change nothing). *)
Fixpoint delta_write_calls (d : delta) (parts : list (list Z)) : option (delta * list Z) :=
  match parts with
  | [] => Some (d, [])
  | p :: ps =>
      match delta_encode d p with
      | None => None
      | Some (d1, o1) =>
          match delta_write_calls d1 ps with
          | None => None
          | Some (d2, o2) => Some (d2, o1 ++ o2)
          end
      end
  end.

(* DeltaReader: each read() call obtains some slice from the inner reader and decodes it in place. *)
Fixpoint delta_read_calls (d : delta) (parts : list (list Z)) : option (delta * list Z) :=
  match parts with
  | [] => Some (d, [])
  | p :: ps =>
      match delta_decode d p with
      | None => None
      | Some (d1, o1) =>
          match delta_read_calls d1 ps with
          | None => None
          | Some (d2, o2) => Some (d2, o1 ++ o2)
          end
      end
  end.

(* Reference semantics of the Delta filter (xz-file-format 5.3.3): out[i] = in[i] - in[i - dist],
   bytes before the start of the stream being 0.  [hist] is the input seen so far, newest first. *)
Fixpoint delta_spec_enc (dist : Z) (hist : list Z) (l : list Z) : list Z :=
  match l with
  | [] => []
  | x :: t =>
      let h := match zth hist (dist - 1) with Some v => v | None => 0 end in
      ((x - h) mod 256) :: delta_spec_enc dist (x :: hist) t
  end.

(* entry points for the driver *)
Definition delta_encode_bytes (dist : Z) (l : list Z) : option (list Z) :=
  match delta_encode (delta_new dist) l with Some (_, o) => Some o | None => None end.
Definition delta_decode_bytes (dist : Z) (l : list Z) : option (list Z) :=
  match delta_decode (delta_new dist) l with Some (_, o) => Some o | None => None end.
Definition delta_write_parts (dist : Z) (parts : list (list Z)) : option (list Z) :=
  match delta_write_calls (delta_new dist) parts with Some (_, o) => Some o | None => None end.
Definition delta_read_parts (dist : Z) (parts : list (list Z)) : option (list Z) :=
  match delta_read_calls (delta_new dist) parts with Some (_, o) => Some o | None => None end.
