(* Extract/Extract.v — the single extraction file.  Run from /verif/build/driver by ./check and
   setup.sh:  coqc -Q /verif/coq LzVerif /verif/coq/Extract/Extract.v
   Directives: ExtrOcamlBasic (bool, option, unit, list, prod, sumbool -> OCaml natives) and
   ExtrOcamlZBigInt (positive/N/Z -> zarith big integers).  No hand-written Extract Constant. *)
From Coq Require Import ExtrOcamlBasic ExtrOcamlZBigInt.
From LzVerif Require Import Base.Bytes Filter.Delta Format.LzipDict.

Extraction Language OCaml.
Set Extraction Optimize.
Extraction "model.ml"
  delta_write_parts delta_read_parts delta_encode_bytes delta_decode_bytes delta_spec_enc
  lzip_encode_dict_size lzip_encode_dict_size_old lzip_decode_dict_size lzip_header_dict.
