(* Io/Script.v — scripted sources and sinks, and the retry loops std::io::Read::read_exact /
   Write::write_all (and the crate's no_std copies in src/no_std.rs) run over them.
   Definitions only.  A source answers each read() call with one response; a sink each write(). *)
From LzVerif Require Export Base.Bytes.

Inductive rresp : Type :=
| RData (bytes : list Z)     (* up to that many bytes are available for this call (non-empty) *)
| RInterrupted
| RFail (kind : Z)
| REof.

(* one read(buf) call with buf.len() = n > 0: returns the bytes delivered (a prefix of what the
   response offers, the rest stays for the next call) or an error kind; and the remaining script *)
Definition src_read (s : list rresp) (n : nat) : outcome (list Z) * list rresp :=
  match s with
  | [] => (Ok [], [])
  | REof :: _ => (Ok [], s)                      (* EOF is sticky *)
  | RInterrupted :: r => (Err E_INTERRUPTED, r)
  | RFail k :: r => (Err k, r)
  | RData b :: r =>
      let got := firstn n b in
      let left := skipn n b in
      (Ok got, match left with [] => r | _ => RData left :: r end)
  end.

(* read_exact(buf): loop { match read(buf) { Ok(0) => UnexpectedEof, Ok(n) => advance,
   Err(Interrupted) => retry, Err(e) => return e } }.  Fuel = number of read() calls allowed. *)
Fixpoint read_exact (fuel : nat) (s : list rresp) (n : nat) (acc : list Z) : outcome (list Z) * list rresp :=
  match n with
  | O => (Ok acc, s)
  | S _ =>
      match fuel with
      | O => (Fuel, s)
      | S f =>
          match src_read s n with
          | (Ok [], s1) => (Err E_UNEXPECTED_EOF, s1)
          | (Ok got, s1) => read_exact f s1 (n - length got) (acc ++ got)
          | (Err k, s1) => if k =? E_INTERRUPTED then read_exact f s1 n acc else (Err k, s1)
          | (Panic c, s1) => (Panic c, s1)
          | (Fuel, s1) => (Fuel, s1)
          end
      end
  end.

(* the byte content of a script up to its first hard fault, and how it ends *)
Fixpoint script_bytes (s : list rresp) : list Z :=
  match s with
  | [] => []
  | RData b :: r => b ++ script_bytes r
  | RInterrupted :: r => script_bytes r
  | RFail _ :: _ => []
  | REof :: _ => []
  end.
Fixpoint script_end (s : list rresp) : Z :=     (* E_UNEXPECTED_EOF for clean end, else the fault kind *)
  match s with
  | [] => E_UNEXPECTED_EOF
  | RData _ :: r => script_end r
  | RInterrupted :: r => script_end r
  | RFail k :: _ => k
  | REof :: _ => E_UNEXPECTED_EOF
  end.

Definition script_ok (s : list rresp) : bool :=
  forallb (fun r => match r with RData b => negb (match b with [] => true | _ => false end) | RFail k => negb (k =? E_INTERRUPTED) | _ => true end) s.

(* sinks *)
Inductive wresp : Type :=
| WAccept (n : nat)          (* accepts up to n > 0 bytes of this call *)
| WInterrupted
| WFail (kind : Z)
| WZero.                     (* write returns Ok(0) *)

(* write_all(buf): loop { match write(buf) { Ok(0) => WriteZero, Ok(n) => advance,
   Err(Interrupted) => retry, Err(e) => return e } }.  A sink with no response left accepts all. *)
Fixpoint write_all (fuel : nat) (s : list wresp) (buf : list Z) (taken : list Z)
  : outcome unit * list Z * list wresp :=
  match buf with
  | [] => (Ok tt, taken, s)
  | _ :: _ =>
      match fuel with
      | O => (Fuel, taken, s)
      | S f =>
          match s with
          | [] => (Ok tt, taken ++ buf, [])
          | WAccept n :: r =>
              let k := Nat.min (Nat.max n 1) (length buf) in
              write_all f r (skipn k buf) (taken ++ firstn k buf)
          | WInterrupted :: r => write_all f r buf taken
          | WFail kind :: r => (Err kind, taken, r)
          | WZero :: r => (Err E_WRITE_ZERO, taken, r)
          end
      end
  end.
