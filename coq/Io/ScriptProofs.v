(* Io/ScriptProofs.v — read_exact / write_all hide how the source chops its data and how often it
   reports Interrupted: they see only the byte content of the script and its terminal fault. *)
From LzVerif Require Import Base.Bytes Io.Script.

Lemma firstn_skipn_app {A} (n : nat) (l : list A) : firstn n l ++ skipn n l = l.
Proof. apply firstn_skipn. Qed.

Lemma script_ok_tail r s : script_ok (r :: s) = true -> script_ok s = true.
Proof. unfold script_ok; cbn [forallb]. intros H. apply andb_true_iff in H as [_ H]. exact H. Qed.

Lemma read_exact_0 fuel s acc : read_exact fuel s 0 acc = (Ok acc, s).
Proof. destruct fuel; reflexivity. Qed.

(* read_exact n returns the next n bytes of the script's content, whatever the chopping; if the
   content ends first it returns the script's terminal fault (UnexpectedEof for a clean end). *)
Theorem read_exact_abstracts : forall fuel s n acc,
  script_ok s = true ->
  (length s + n < fuel)%nat ->
  (n <= length (script_bytes s))%nat ->
  exists s', read_exact fuel s n acc = (Ok (acc ++ firstn n (script_bytes s)), s') /\
             script_bytes s' = skipn n (script_bytes s) /\ script_end s' = script_end s /\
             script_ok s' = true /\ (length s' <= length s)%nat.
Proof.
  induction fuel as [|f IH]; intros s n acc Hok Hfuel Hn; [lia|].
  destruct n as [|m].
  - rewrite read_exact_0. cbn [firstn skipn]. rewrite app_nil_r. exists s. repeat split; auto.
  - cbn [read_exact]. destruct s as [|r t].
    + cbn in Hn. lia.
    + destruct r as [b| |k|].
      * (* data *)
        pose proof Hok as Hok0. unfold script_ok in Hok; cbn [forallb] in Hok.
        apply andb_true_iff in Hok as [Hb Hokt]. fold (script_ok t) in Hokt.
        destruct b as [|x b']; [discriminate|]. clear Hb.
        cbn [src_read]. set (b := x :: b') in *.
        destruct (firstn (S m) b) as [|g gs] eqn:Eg; [unfold b in Eg; cbn in Eg; discriminate|].
        rewrite <- Eg.
        assert (Hgl : (length (firstn (S m) b) <= S m)%nat) by apply firstn_le_length.
        assert (Hgp : (1 <= length (firstn (S m) b))%nat) by (rewrite Eg; cbn; lia).
        cbn [script_bytes] in Hn |- *.
        destruct (skipn (S m) b) as [|y ys] eqn:Es.
        -- (* the whole response was consumed *)
           assert (Hb_all : firstn (S m) b = b).
           { rewrite <- (firstn_skipn (S m) b) at 2. rewrite Es, app_nil_r. reflexivity. }
           rewrite Hb_all in *.
           assert (Hlb : (length b <= S m)%nat) by lia.
           destruct (IH t (S m - length b)%nat (acc ++ b) Hokt) as (s' & E & Hsb & Hse & Hso & Hsl).
           { cbn [length] in Hfuel. lia. }
           { rewrite app_length in Hn. lia. }
           exists s'. rewrite E. split.
           { f_equal. rewrite <- app_assoc. f_equal.
             rewrite firstn_app. rewrite (firstn_all2 b) by lia. reflexivity. }
           split.
           { rewrite Hsb. rewrite skipn_app. rewrite (skipn_all2 b) by lia. reflexivity. }
           split; [rewrite Hse; reflexivity|]. split; [assumption|]. cbn [length]; lia.
        -- (* part of the response stays: then exactly S m bytes were delivered *)
           assert (Hlen : length (firstn (S m) b) = S m).
           { apply firstn_length_le. pose proof (f_equal (@length Z) Es) as Hl.
             rewrite skipn_length in Hl. cbn [length] in Hl. lia. }
           rewrite Hlen. replace (S m - S m)%nat with O by lia.
           rewrite read_exact_0.
           exists (RData (y :: ys) :: t). split.
           { f_equal. f_equal. rewrite firstn_app.
             pose proof (f_equal (@length Z) Es) as Hl. rewrite skipn_length in Hl. cbn [length] in Hl.
             replace (S m - length b)%nat with O by lia. cbn [firstn]. rewrite app_nil_r. reflexivity. }
           split.
           { cbn [script_bytes]. rewrite skipn_app. rewrite Es.
             pose proof (f_equal (@length Z) Es) as Hl. rewrite skipn_length in Hl. cbn [length] in Hl.
             replace (S m - length b)%nat with O by lia. reflexivity. }
           split; [reflexivity|]. split; [|cbn [length]; lia].
           unfold script_ok; cbn [forallb]. fold (script_ok t). rewrite Hokt. reflexivity.
      * (* interrupted: retried *)
        cbn [src_read]. change (E_INTERRUPTED =? E_INTERRUPTED) with true. cbv iota.
        destruct (IH t (S m) acc (script_ok_tail _ _ Hok)) as (s' & E & Hsb & Hse & Hso & Hsl).
        { cbn [length] in Hfuel. lia. }
        { cbn [script_bytes] in Hn. exact Hn. }
        exists s'. rewrite E. cbn [script_bytes script_end]. repeat split; auto. cbn [length]; lia.
      * cbn [script_bytes] in Hn. cbn in Hn. lia.
      * cbn [script_bytes] in Hn. cbn in Hn. lia.
Qed.

(* when the content is shorter than requested the call fails with the script's terminal fault *)
Theorem read_exact_short : forall fuel s n acc,
  script_ok s = true ->
  (length s + n < fuel)%nat ->
  (length (script_bytes s) < n)%nat ->
  exists s', read_exact fuel s n acc = (Err (script_end s), s').
Proof.
  induction fuel as [|f IH]; intros s n acc Hok Hfuel Hn; [lia|].
  destruct n as [|m]; [lia|].
  cbn [read_exact]. destruct s as [|r t].
  - cbn [src_read]. eexists. reflexivity.
  - destruct r as [b| |k|].
    + pose proof Hok as Hok0. unfold script_ok in Hok; cbn [forallb] in Hok.
      apply andb_true_iff in Hok as [Hb Hokt]. fold (script_ok t) in Hokt.
      destruct b as [|x b']; [discriminate|]. clear Hb. set (b := x :: b') in *.
      cbn [src_read script_bytes script_end] in *. rewrite app_length in Hn.
      assert (Hall : firstn (S m) b = b) by (apply firstn_all2; lia).
      assert (Hsk : skipn (S m) b = []) by (apply skipn_all2; lia).
      rewrite Hall, Hsk. unfold b at 1.
      destruct (IH t (S m - length b)%nat (acc ++ b) Hokt) as (s' & E).
      { cbn [length] in Hfuel. lia. }
      { lia. }
      exists s'. exact E.
    + cbn [src_read script_end]. change (E_INTERRUPTED =? E_INTERRUPTED) with true. cbv iota.
      destruct (IH t (S m) acc (script_ok_tail _ _ Hok)) as (s' & E).
      { cbn [length] in Hfuel. lia. }
      { cbn [script_bytes] in Hn. exact Hn. }
      exists s'. exact E.
    + cbn [src_read script_end]. unfold script_ok in Hok; cbn [forallb] in Hok.
      apply andb_true_iff in Hok as [Hk _]. apply negb_true_iff in Hk. rewrite Hk.
      eexists. reflexivity.
    + cbn [src_read script_end]. eexists. reflexivity.
Qed.

(* write_all over a sink that only short-writes or reports Interrupted delivers exactly the
   buffer; the first hard fault (or Ok(0)) is returned with a prefix delivered. *)
Definition sink_soft (s : list wresp) : bool :=
  forallb (fun r => match r with WAccept _ | WInterrupted => true | _ => false end) s.

Theorem write_all_soft : forall fuel s buf taken,
  sink_soft s = true -> (length s + length buf < fuel)%nat ->
  exists s', write_all fuel s buf taken = (Ok tt, taken ++ buf, s').
Proof.
  induction fuel as [|f IH]; intros s buf taken Hs Hf; [lia|].
  destruct buf as [|x t]; [exists s; cbn [write_all]; rewrite app_nil_r; reflexivity|].
  cbn [write_all]. destruct s as [|r rs]; [eexists; reflexivity|].
  unfold sink_soft in Hs; cbn [forallb] in Hs. apply andb_true_iff in Hs as [Hr Hrs]. fold (sink_soft rs) in Hrs.
  destruct r as [n| | |]; try discriminate.
  - set (k := Nat.min (Nat.max n 1) (length (x :: t))).
    destruct (IH rs (skipn k (x :: t)) (taken ++ firstn k (x :: t)) Hrs) as (s' & E).
    { rewrite skipn_length. cbn [length] in *. lia. }
    exists s'. rewrite E. rewrite <- app_assoc, firstn_skipn. reflexivity.
  - destruct (IH rs (x :: t) taken Hrs) as (s' & E); [cbn [length] in *; lia|].
    exists s'. exact E.
Qed.

Theorem write_all_prefix : forall fuel s buf taken r taken' s',
  write_all fuel s buf taken = (r, taken', s') -> exists p, taken' = taken ++ p /\ exists q, buf = p ++ q.
Proof.
  induction fuel as [|f IH]; intros s buf taken r taken' s' H.
  - destruct buf; cbn [write_all] in H; inversion H; subst; exists []; rewrite app_nil_r; split; auto; eexists; reflexivity.
  - destruct buf as [|x t]; [cbn [write_all] in H; inversion H; subst; exists []; rewrite app_nil_r; split; auto; exists []; reflexivity|].
    cbn [write_all] in H. destruct s as [|w ws].
    + inversion H; subst. exists (x :: t). split; [reflexivity|]. exists []. rewrite app_nil_r. reflexivity.
    + destruct w as [n| |kind|].
      * set (k := Nat.min (Nat.max n 1) (length (x :: t))) in *.
        apply IH in H as (p & Hp & q & Hq).
        exists (firstn k (x :: t) ++ p). split; [rewrite Hp, app_assoc; reflexivity|].
        exists q. rewrite <- app_assoc, <- Hq, firstn_skipn. reflexivity.
      * apply IH in H. exact H.
      * inversion H; subst. exists []. rewrite app_nil_r. split; auto. exists (x :: t). reflexivity.
      * inversion H; subst. exists []. rewrite app_nil_r. split; auto. exists (x :: t). reflexivity.
Qed.
