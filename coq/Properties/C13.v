(* Properties/C13.v — compressed output is a pure function of input and options.
   Only theorem statements, each closed by [exact] of a lemma proved elsewhere.

   What "pure function" means here.  The models are Gallina functions, so repeated runs of a
   MODEL are trivially identical; the content is that nothing the encoder decides can depend on
   how the caller cuts the data into write() calls.  The encoder's decisions are taken by code
   that is NOT modelled (HC4/BT4 match finders, fast/normal parsers).  They enter as an arbitrary
   strategy tree ([strat], Codec/EncWindow.v) that is told the logical stream position and its
   own previous state, and that can only observe what the Rust code lets the parsers and match
   finders observe of the window's fill state: min(avail, MATCH_LEN_MAX) at each match-finder
   move and min(get_avail(), c) for constants c.  ASSUMPTION (the reason this property is claimed
   PARTIAL): the real match finders and parsers are such strategies, i.e. functions of the window
   CONTENT in [read_pos - dict_size, read_pos + clamp) (a function of the data and the logical
   position), of their own state (hash tables and optimum arrays: zero-/fully initialised by the
   constructors, updated once per position — EncWindowProofs.v shows that process_pending_bytes
   re-runs exactly the pending positions (process_pending_spec) and that a consultation in the
   steady phase never finds a pending position (phi_consult_nopend) —), and of those clamped
   observations; they use lz.get_pos() only modulo a power of two <= 16 (window
   moves are multiples of 64: history_kept).  The correspondence run checks the consequences on
   the real code (identical bytes and symbol traces across partitions and repeated runs). *)
From LzVerif Require Import Base.Bytes Codec.EncWindow Codec.EncWindowProofs.

(* lookahead_clamped: with the full look-ahead in the window (the only situation in which
   encode_symbol consults the parser while the writer is neither flushing nor finishing, see
   phi_consult_nopend in EncWindowProofs.v) two encoder states that differ in how much MORE data
   has already been written (write_pos, read_limit) lead every strategy to the same decision. *)
Theorem C13_lookahead_clamped : forall (PS : Type) p (s : strat PS) e e' tr tr',
  wf_p p -> minv p e -> minv p e' ->
  read_ahead e = read_ahead e' ->
  match_len_max p + extra_after p - read_ahead e <= write_pos (e_lz e) - read_pos (e_lz e) ->
  match_len_max p + extra_after p - read_ahead e' <= write_pos (e_lz e') - read_pos (e_lz e') ->
  forall e1 len full ps1 tr1 e1' len' full' ps1' tr1',
  run_strat PS p s e tr = Ok (e1, len, full, ps1, tr1) ->
  run_strat PS p s e' tr' = Ok (e1', len', full', ps1', tr1') ->
  len = len' /\ full = full' /\ ps1 = ps1' /\ read_ahead e1 = read_ahead e1'.
Proof. exact lookahead_clamped. Qed.
Print Assumptions C13_lookahead_clamped.

(* enc_partition_independent for LZMAWriter (and LZIPWriter, one LZMAWriter per member, members
   cut by byte counts only): two call histories over the same amount of data — any partition into
   write() calls, empty writes, flush() calls — drive every parser strategy through the same
   consultations: same symbol lengths in the same order, same final parser state (which may record
   the complete symbols).  With Codec/LzmaWriters.v ([lzma1_write]: the bytes are a function of
   options, data and the symbol sequence; validated against the real encoder by the lzmaenc
   correspondence) the compressed bytes are equal. *)
Theorem C13_enc_partition_independent_lzma1 : forall (PS : Type) (parse : PS -> Z -> Z -> strat PS) (ps0 : PS)
    normal bt4 dict nice preset expected body body' s0 s1 res s1' res',
  opts_ok dict nice ->
  (match preset with Some plen => 0 <= plen | None => True end) ->
  ops_ok body -> ops_ok body' -> no_finish body -> no_finish body' ->
  ops_total body = ops_total body' ->
  (match expected with Some ex => ex = ops_total body | None => True end) ->
  (match preset with Some plen => Z.min plen dict | None => 0 end) + ops_total body <= U32_MAX ->
  l1_new PS normal bt4 dict nice preset expected ps0 = Ok s0 ->
  l1_run PS parse s0 (body ++ [WoFinish]) [] = Ok (s1, res) ->
  l1_run PS parse s0 (body' ++ [WoFinish]) [] = Ok (s1', res') ->
  rsyms (l1_tr _ s1) = rsyms (l1_tr _ s1') /\ l1_ps _ s1 = l1_ps _ s1'.
Proof. exact enc_partition_independent_lzma1. Qed.
Print Assumptions C13_enc_partition_independent_lzma1.

(* enc_partition_independent for LZMA2Writer without chunk_size (XZWriter without block size
   forwards to one LZMA2Writer) and without flush() calls: two partitions of the same amount of
   data lead every parser strategy AND every range-coder oracle through the same consultations
   and the same chunk decisions: same symbol lengths, same LZMA / uncompressed chunks with the
   same sizes, same final oracle state.  With Codec/LzmaWriters.v ([lzma2_write]: the bytes are a
   function of options, data and this event sequence) the compressed bytes are equal. *)
Theorem C13_enc_partition_independent_lzma2 : forall (PS : Type) (parse : PS -> Z -> Z -> strat PS) (chunkc : PS -> Z -> Z * PS) (ps0 : PS)
    normal bt4 dict nice preset body body' s0 s1 res s1' res',
  opts_ok dict nice ->
  (match preset with Some plen => 0 <= plen | None => True end) ->
  ops_ok body -> ops_ok body' -> no_finish body -> no_finish body' -> no_flush body -> no_flush body' ->
  ops_total body = ops_total body' -> ops_total body <= 4611686018427387904 ->
  l2_new_repaired PS normal bt4 dict nice preset None ps0 = Ok s0 ->
  l2_run PS parse chunkc s0 (body ++ [WoFinish]) [] = Ok (s1, res) ->
  l2_run PS parse chunkc s0 (body' ++ [WoFinish]) [] = Ok (s1', res') ->
  rsyms (l2_tr _ s1) = rsyms (l2_tr _ s1') /\ l2_ps _ s1 = l2_ps _ s1'.
Proof. exact enc_partition_independent_lzma2. Qed.
Print Assumptions C13_enc_partition_independent_lzma2.

(* The runs the two theorems speak about exist and are safe: for every history, parser and
   oracle the LZMA2 run ends Ok (or with a contract violation of the oracle), never in a panic. *)
Theorem C13_lzma2_run_exact : forall (PS : Type) (parse : PS -> Z -> Z -> strat PS) (chunkc : PS -> Z -> Z * PS) (ps0 : PS)
    normal bt4 dict nice preset chunk ops,
  opts_ok dict nice ->
  (match preset with Some plen => 0 <= plen | None => True end) ->
  ops_ok ops -> ops_total ops <= 4611686018427387904 ->
  okor (do s <- l2_new_repaired PS normal bt4 dict nice preset chunk ps0; l2_run PS parse chunkc s ops [])
       (fun r =>
          let '(s1, res) := r in
          let '(rs, c, fin) := l2_results 0 ops in
          res = rs /\ sum_fill (l2_tr _ s1) = c /\
          (fin = true -> sum_chunk (l2_tr _ s1) = c /\ sum_sym (l2_tr _ s1) + sum_abs (l2_tr _ s1) = c)).
Proof. exact lzma2_run_exact. Qed.
Print Assumptions C13_lzma2_run_exact.

(* history_kept: window moves are multiples of 64 and keep keep_size_before bytes of history:
   buffer positions and logical positions agree modulo 64 and the dictionary stays reachable. *)
Theorem C13_history_kept : forall p d tr, wf_p p -> lzinv p d ->
  buf_size p - keep_after p <= read_pos d ->
  exists off, move_window p d tr =
    Ok (mkLzd (read_pos d - off) (read_limit d - off) (finishing d) (write_pos d - off) (pending_size d),
        EvMove off (write_pos d - off) :: tr) /\
    64 <= off /\ off mod 64 = 0 /\ keep_before p <= (read_pos d - off) + 1 /\ (read_pos d - off) + 1 < keep_before p + 64.
Proof. exact history_kept. Qed.
Print Assumptions C13_history_kept.

(* Non-vacuity: the same 300 bytes in one write and in 1 + 0 + 299 bytes with a flush: a strategy
   that always advances one position and emits a literal is consulted identically. *)
Example C13_example :
  let parse := fun (ps : Z) (_ _ : Z) => SMove (fun _ => SEmit 1 false (ps + 1)) in
  match l1_new Z false false 4096 32 None None 0 with
  | Ok s0 =>
      match l1_run Z parse s0 [WoWrite 300; WoFinish] [], l1_run Z parse s0 [WoWrite 1; WoWrite 0; WoFlush; WoWrite 299; WoFinish] [] with
      | Ok (s1, _), Ok (s1', _) => rsyms (l1_tr _ s1) = rsyms (l1_tr _ s1') /\ l1_ps _ s1 = 299 /\ l1_ps _ s1' = 299
      | _, _ => False
      end
  | _ => False
  end.
Proof. vm_compute. repeat split; reflexivity. Qed.

Example C13_example_lzma2 :
  let parse := fun (ps : Z) (_ _ : Z) => SMove (fun _ => SEmit 1 false (ps + 1)) in
  let chunkc := fun (ps : Z) (u : Z) => (u + 5, ps + 1000) in
  match l2_new_repaired Z false false 4096 32 None None 0 with
  | Ok s0 =>
      match l2_run Z parse chunkc s0 [WoWrite 300; WoFinish] [], l2_run Z parse chunkc s0 [WoWrite 1; WoWrite 0; WoWrite 299; WoFinish] [] with
      | Ok (s1, _), Ok (s1', _) => rsyms (l2_tr _ s1) = rsyms (l2_tr _ s1') /\ l2_ps _ s1 = 1299 /\ l2_ps _ s1' = 1299
      | _, _ => False
      end
  | _ => False
  end.
Proof. vm_compute. repeat split; reflexivity. Qed.
