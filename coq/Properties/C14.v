(* Properties/C14.v — feature configurations (optimization on/off, SIMD/scalar, assembly/portable)
   behave identically.  Only theorem statements, each closed by [exact] of a lemma proved in
   Arith/*Proofs.v.  The whole-codec part of C14 (both configurations produce the bytes / decode
   outcomes of ONE model) is the correspondence run of ./check C14, not a theorem. *)
From LzVerif Require Import Base.Bytes Codec.Store Codec.Range
  Arith.Normalize Arith.NormalizeProofs Arith.DirectBitsAsm Arith.DirectBitsAsmProofs
  Arith.UnsafeBounds Arith.ExtendWordsProofs Arith.UnsafeBoundsProofs.

(* ---- position renormalisation (F17) --------------------------------------------------------- *)
(* Domain: every i32 table content and every offset 0 <= off <= i32::MAX; the callers pass
   off = 0x7FFFFFFF - cyclic_size with 1 <= cyclic_size.  [simd]/[lanes]/[pre] range over all
   dispatch decisions, vector widths and alignment splits: scalar build = AVX2 = SSE4.1 = NEON
   = unaligned prefix/suffix = the rule of XZ for Java, and nothing panics. *)
Theorem C14_normalize_twins : forall simd lanes pre l off,
  0 <= off <= I32_MAX -> forallb is_i32 l = true ->
  normalize_dispatch simd lanes pre l off = Ok (normalize_spec l off).
Proof. exact normalize_twins. Qed.
Print Assumptions C14_normalize_twins.

Theorem C14_normalize_keeps_window : forall cyc p,
  1 <= cyc <= I32_MAX -> I32_MIN <= p <= I32_MAX ->
  let off := norm_offset_of cyc in
  (I32_MAX - p < cyc -> cyc - norm_spec off p = I32_MAX - p) /\
  (cyc <= I32_MAX - p -> norm_spec off p = 0) /\
  (forall lz_pos, cyc <= lz_pos <= I32_MAX -> candidate_followed cyc lz_pos 0 = false).
Proof. exact normalize_keeps_window. Qed.
Print Assumptions C14_normalize_keeps_window.

(* the behaviour before the fix (i32::saturating_sub) *)
Theorem C14_normalize_scalar_old_refuted :
  exists cyc l lz_pos,
    let off := norm_offset_of cyc in
    1 <= cyc <= I32_MAX /\ forallb is_i32 l = true /\ cyc <= lz_pos <= I32_MAX /\
    normalize_dispatch_old false 8 0 l off <> normalize_dispatch_old true 8 0 l off /\
    normalize_dispatch_old true 8 1 l off <> normalize_dispatch_old true 8 0 l off /\
    normalize_dispatch_old false 8 0 l off <> Ok (normalize_spec l off) /\
    (exists e, In e (normalize_scalar_old l off) /\ e < 0 /\ candidate_followed cyc lz_pos e = true) /\
    (forall e, In e (normalize_spec l off) -> candidate_followed cyc lz_pos e = false).
Proof. exact normalize_scalar_old_refuted. Qed.
Print Assumptions C14_normalize_scalar_old_refuted.

(* ---- decode_direct_bits (F18) ------------------------------------------------------------------ *)
Theorem C14_direct_bits_twins : forall buf pos range code count,
  0 <= pos -> 1 <= count -> pos + count <= zlen buf -> zlen buf < P2_63 ->
  direct_bits_asm buf pos range code count = Ok (direct_bits_portable buf pos range code count).
Proof. exact direct_bits_twins. Qed.
Print Assumptions C14_direct_bits_twins.

(* the dispatch before the fix: assembly whenever count > 0 *)
Theorem C14_direct_bits_overrun_refuted :
  (exists buf pos range code count,
     bytes_ok buf = true /\ 0 <= pos /\ 0 <= range < P2_32 /\ 0 <= code < P2_32 /\ 1 <= count /\
     exists v r c p1 p2,
       direct_bits_dispatch_old true buf pos range code count = Ok (v, r, c, p1) /\
       direct_bits_dispatch_old false buf pos range code count = Ok (v, r, c, p2) /\
       buffer_is_finished (zlen buf) p1 c = true /\ buffer_is_finished (zlen buf) p2 c = false) /\
  (exists buf pos range code count,
     bytes_ok buf = true /\ 0 <= pos /\ 0 <= range < P2_32 /\ 0 <= code < P2_32 /\ 1 <= count /\
     exists v r c1 c2 p1 p2,
       direct_bits_dispatch_old true buf pos range code count = Ok (v, r, c1, p1) /\
       direct_bits_dispatch_old false buf pos range code count = Ok (v, r, c2, p2) /\ c1 <> c2).
Proof. exact direct_bits_overrun_refuted. Qed.
Print Assumptions C14_direct_bits_overrun_refuted.

(* the repaired dispatch: both configurations compute the per-bit loop of Codec/Range.v in
   every state with range >= 2^16 (an invariant of the decoder), inside, at and beyond the end
   of the chunk buffer *)
Theorem C14_direct_bits_dispatch_eq : forall opt buf pos range code count,
  0 <= pos -> zlen buf < P2_63 -> 65536 <= range < P2_32 -> 0 <= count ->
  direct_bits_dispatch opt buf pos range code count = Ok (direct_bits_portable buf pos range code count).
Proof. exact direct_bits_dispatch_eq. Qed.
Print Assumptions C14_direct_bits_dispatch_eq.

Theorem C14_direct_bits_loop_eq : forall buf pos range code count,
  65536 <= range < P2_32 -> 0 <= count ->
  direct_bits_rust_loop buf pos range code count = Ok (direct_bits_portable buf pos range code count).
Proof. exact direct_bits_loop_eq. Qed.
Print Assumptions C14_direct_bits_loop_eq.

(* aarch64 assembly: modelled by transcription only (cannot be executed on this x86-64 machine);
   it selects on the carry flag where the others use the sign bit. *)
Theorem C14_direct_bits_aarch64_refuted :
  exists buf pos range code count,
    bytes_ok buf = true /\ 0 <= pos /\ pos + count <= zlen buf /\ 0 <= code < range /\ range < P2_32 /\ 1 <= count /\
    direct_bits_asm_aarch64 buf pos range code count <> Ok (direct_bits_portable buf pos range code count) /\
    direct_bits_asm buf pos range code count = Ok (direct_bits_portable buf pos range code count).
Proof. exact direct_bits_aarch64_refuted. Qed.
Print Assumptions C14_direct_bits_aarch64_refuted.

(* ---- extend_match / extend_match_safe / fast reject ------------------------------------------------ *)
Theorem C14_extend_match_safe_cpl : forall a b,
  bytes_ok a = true -> bytes_ok b = true -> extend_match_safe a b = cpl a b.
Proof. exact extend_match_safe_cpl. Qed.
Print Assumptions C14_extend_match_safe_cpl.

Theorem C14_extend_match_twins : forall checked opt buf read_pos current_len distance limit,
  bytes_ok buf = true -> zlen buf < 2 ^ 63 ->
  0 <= read_pos -> 0 <= current_len <= limit -> limit <= I32_MAX ->
  read_pos + limit <= zlen buf -> read_pos + limit <= I32_MAX ->
  0 <= distance <= read_pos + current_len ->
  let start1 := read_pos + current_len in
  let ext := limit - current_len in
  let r := current_len + cpl (slice buf start1 (start1 + ext)) (slice buf (start1 - distance) (start1 - distance + ext)) in
  extend_match checked opt buf read_pos current_len distance limit = Ok r /\ current_len <= r <= limit.
Proof. exact extend_match_twins. Qed.
Print Assumptions C14_extend_match_twins.

Theorem C14_fast_reject_twins : forall checked buf read_pos match_dist,
  zlen buf < 2 ^ 63 -> 0 <= match_dist <= read_pos -> match_dist <= I32_MAX -> read_pos + 2 <= zlen buf ->
  exists r, fast_reject checked true buf read_pos match_dist = Ok r /\
            fast_reject checked false buf read_pos match_dist = Ok r.
Proof. exact fast_reject_twins. Qed.
Print Assumptions C14_fast_reject_twins.

(* ---- non-vacuity ------------------------------------------------------------------------------------- *)
Example C14_normalize_example :
  normalize_dispatch true 8 3 [0; 5; 2147479551; 2147483647; -7; 2147479550; 2147479552; 1; 2; 3; 4; 5; 6]
                     (norm_offset_of 4097)
  = Ok [0; 0; 1; 4097; 0; 0; 2; 0; 0; 0; 0; 0; 0].
Proof. vm_compute. reflexivity. Qed.

(* 26 direct bits (the longest run LZMA uses) from a valid state with pos + count <= len: four
   bytes are consumed *)
Example C14_direct_bits_example :
  let b := [18; 52; 86; 120; 154; 1; 2; 3; 4; 5; 6; 7; 8; 9; 10; 11; 12; 13; 14; 15; 16; 17; 18; 19; 20; 21; 22; 23; 24; 25] in
  1 + 26 <= zlen b /\
  direct_bits_asm b 1 16777215 11259375 26 = Ok (45037503, 1073741760, 539256922, 5) /\
  direct_bits_portable b 1 16777215 11259375 26 = (45037503, 1073741760, 539256922, 5) /\
  direct_bits_dispatch true b 1 16777215 11259375 26 = Ok (45037503, 1073741760, 539256922, 5).
Proof. vm_compute. repeat split; try reflexivity. discriminate. Qed.

Example C14_extend_match_example :
  extend_match false true [1; 2; 3; 1; 2; 3; 1; 2; 9] 3 0 3 6 = Ok 5 /\
  extend_match true false [1; 2; 3; 1; 2; 3; 1; 2; 9] 3 0 3 6 = Ok 5.
Proof. vm_compute. split; reflexivity. Qed.
