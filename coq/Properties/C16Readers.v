(* Properties/C16Readers.v — C16 at the level of the readers: after LZMAReader (end marker, or
   declared size without marker; with header / raw / preset dictionary), LZMA2Reader and the
   single-stream XZReader have returned end of stream, the unread part of the source is exactly
   what followed the compressed stream ([tail] / [rest], arbitrary bytes), for EVERY history of
   destination-buffer sizes.  Only theorem statements, closed by [exact] of lemmas proved in
   Codec/Lzma1ReadProofs.v, Codec/Lzma2ReadProofs.v and Format/XzProofs.v (the same lemmas give
   the round trips of C01 / C12: the unconsumed-input clause is the C16 content). *)
From LzVerif Require Import Base.Bytes Codec.Store Codec.Range Codec.LzWindow Codec.LzmaDec Codec.LzmaEnc
  Codec.LzmaWriters Codec.Lzma1 Codec.RangeEncProofs Codec.RangeProofs Codec.LzmaRoundtrip
  Codec.Lzma1LoopProofs Codec.Lzma1ReadProofs
  Codec.Lzma2Dec Codec.Lzma2SpecProofs Codec.Lzma2FrameSyncProofs Codec.Lzma2ReadProofs
  Format.XzFormat Format.XzProofs.

(* LZMAReader::new / new_with_props on a raw stream, end marker (uncomp = u64::MAX) or declared
   size without marker *)
Theorem C16_lzma1_reader_leaves_tail : forall lc lp pb dict data syms use_end_marker stream tail sizes,
  0 <= lc <= 8 -> 0 <= lp <= 4 -> 0 <= pb <= 4 -> 4096 <= dict <= 2147483648 ->
  bytes_ok data = true -> no_end syms ->
  lzma1_write lc lp pb dict [] data syms false use_end_marker None = Ok stream ->
  (forall E c' h', enc_syms (coder_new lc lp pb) (ehist_new dict [] data) (syms ++ end_syms use_end_marker) = Ok (E, c', h') ->
     events_bits E <= RC_MAX_BITS) ->
  Forall (fun z => 0 < z) sizes ->
  let uncomp := if use_end_marker then U64_MAX else zlen data in
  exists s0, lzma1_construct2 (stream ++ tail) uncomp lc lp pb dict None = Ok s0 /\
    forall fuel, zlen data + 2 <= Z.of_nat fuel ->
    exists s_end, lzma1_read_all fuel s0 sizes sizes [] = Ok (data, s_end) /\ lzma1_unconsumed s_end = tail.
Proof. exact lzma1_roundtrip_raw. Qed.
Print Assumptions C16_lzma1_reader_leaves_tail.

(* LZMAReader::new_mem_limit on a .lzma file (13-byte header), with or without preset dictionary *)
Theorem C16_lzma1_header_reader_leaves_tail : forall lc lp pb dict popt data syms use_end_marker stream tail sizes mem_limit_kb need,
  0 <= lc <= 8 -> 0 <= lp <= 4 -> 0 <= pb <= 4 -> 4096 <= dict <= 2147483648 ->
  let preset := preset_list popt in
  bytes_ok preset = true -> bytes_ok data = true -> no_end syms ->
  preset_hyps dict preset data use_end_marker ->
  lzma1_write lc lp pb dict preset data syms true use_end_marker
              (if use_end_marker then None else Some (zlen data)) = Ok stream ->
  (forall E c' h', enc_syms (coder_new lc lp pb) (ehist_new dict preset data) (syms ++ end_syms use_end_marker) = Ok (E, c', h') ->
     events_bits E <= RC_MAX_BITS) ->
  Forall (fun z => 0 < z) sizes ->
  lzma1_memory_usage dict lc lp = Ok need -> need <= mem_limit_kb ->
  exists s0, lzma1_new_mem_limit (stream ++ tail) mem_limit_kb popt = Ok s0 /\
    forall fuel, zlen data + 2 <= Z.of_nat fuel ->
    exists s_end, lzma1_read_all fuel s0 sizes sizes [] = Ok (data, s_end) /\ lzma1_unconsumed s_end = tail.
Proof. exact lzma1_roundtrip_header. Qed.
Print Assumptions C16_lzma1_header_reader_leaves_tail.

(* LZMA2Reader: the end-of-stream control byte 0x00 is the last byte taken from the source *)
Theorem C16_lzma2_reader_leaves_tail : forall lc lp pb dict data evs stream tail sizes,
  0 <= lc -> 0 <= lp -> lc + lp <= 4 -> 0 <= pb <= 4 -> dict <= 2147483648 ->
  bytes_ok data = true ->
  l2_no_end evs ->
  lzma2_write lc lp pb dict None data evs = Ok stream ->
  Forall (fun z => 0 < z) sizes ->
  exists s0, lzma2_new (stream ++ tail) dict None = Ok s0 /\
    forall fuel, (length data + 2 <= fuel)%nat ->
    exists s_end, lzma2_read_all fuel s0 sizes sizes [] = Ok (data, 0, s_end) /\ m_in s_end = tail.
Proof. exact lzma2_roundtrip. Qed.
Print Assumptions C16_lzma2_reader_leaves_tail.

(* XZReader with allow_multiple_streams = false: the reader stops behind the stream footer, whatever
   follows - null bytes, another stream, container data ([rest] arbitrary).  Payload and filter
   codecs abstract with their own round trip (incl. exact consumption of the payload) as hypothesis;
   the LZMA2 instance of that hypothesis is C16_lzma2_reader_leaves_tail. *)
Theorem C16_xz_single_stream_leaves_rest :
  forall (penc : Z -> list Z -> list Z) (pdec : Z -> list Z -> outcome (list Z * list Z)),
  (forall d dd x tail, d <= dd -> pdec dd (penc d x ++ tail) = Ok (x, tail)) ->
  forall (fenc fdec : fkind -> Z -> list Z -> list Z),
  (forall k p x, fdec k p (fenc k p x) = x) ->
  forall o0 parts f rest, stream_ok o0 ->
    xz_encode penc fenc xz_fixed o0 parts = Ok f ->
    xz_decode xz_check_bytes (blockdec pdec fdec) xz_fixed false (f ++ rest) = Ok (concat parts, rest).
Proof. exact xz_single_stops. Qed.
Print Assumptions C16_xz_single_stream_leaves_rest.
