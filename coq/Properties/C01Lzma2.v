(* Properties/C01Lzma2.v — C01 for the LZMA2 container: LZMA2 writer model, then LZMA2Reader model,
   for EVERY sequence of destination buffer sizes.  Only theorem statements.

   Layers: Lzma2FrameSyncProofs.v (whatever the writer model accepts and writes is a well-formed
   chunk sequence [chunks_ok]: control bytes, sizes, props, dictionary/state resets, stored chunks,
   independent restarts), Lzma2ReadProofs.v (the reader model decodes every well-formed chunk
   sequence, whatever budgets the caller's buffers and the cyclic window impose on the decode calls),
   on top of the codec theorems of C01.v.

   Side conditions, both witnessed as necessary in Lzma2ExamplesProofs.v:
     - no end marker among the LZMA2 symbols (the writer MODEL does not reject it; the real LZMA2
       encoder never emits one): lzma2_end_marker_refuted;
     - preset dictionary: None, or non-empty (an empty preset counts as none since /repo fix
       14cc6e9; before it writer and reader disagreed: see lzma2_empty_preset_fixed).
   The bound on coded decisions per chunk needed by the range-coder theorem is DERIVED: a chunk
   holds at most 2^21 bytes, every symbol produces at least one byte and at most 64 decisions.
   PARTIAL (preset): not proved for a preset LONGER than a dictionary size that the reader rounds
   (l2_window_size dict = dict clamped to >= 4096 and rounded up to a multiple of 16). *)
From LzVerif Require Import Base.Bytes Codec.Store Codec.Range Codec.LzWindow Codec.LzmaDec Codec.LzmaEnc
  Codec.LzmaWriters Codec.Lzma2Dec Codec.Lzma2SpecProofs Codec.Lzma2FrameSyncProofs Codec.Lzma2ReadProofs
  Codec.Lzma2ExamplesProofs.

Theorem C01_lzma2_frame_sync : forall lc lp pb dict preset data evs stream,
  dict <= 2147483648 -> l2_no_end evs ->
  lzma2_write lc lp pb dict preset data evs = Ok stream ->
  chunks_ok lc lp pb (start_level preset) (ehist_new dict (preset_list preset) data) stream.
Proof. exact lzma2_frame_sync. Qed.
Print Assumptions C01_lzma2_frame_sync.

Theorem C01_lzma2_roundtrip : forall lc lp pb dict data evs stream tail sizes,
  0 <= lc -> 0 <= lp -> lc + lp <= 4 -> 0 <= pb <= 4 -> dict <= 2147483648 ->
  bytes_ok data = true ->
  l2_no_end evs ->
  lzma2_write lc lp pb dict None data evs = Ok stream ->
  Forall (fun z => 0 < z) sizes ->
  exists s0, lzma2_new (stream ++ tail) dict None = Ok s0 /\
    forall fuel, (length data + 2 <= fuel)%nat ->
    exists s_end, lzma2_read_all fuel s0 sizes sizes [] = Ok (data, 0, s_end) /\ m_in s_end = tail.
Proof. exact lzma2_roundtrip. Qed.
Print Assumptions C01_lzma2_roundtrip.

Theorem C01_lzma2_roundtrip_preset : forall lc lp pb dict p data evs stream tail sizes,
  0 <= lc -> 0 <= lp -> lc + lp <= 4 -> 0 <= pb <= 4 -> dict <= 2147483648 ->
  p <> [] -> (zlen p <= dict \/ l2_window_size dict = dict) ->
  bytes_ok p = true -> bytes_ok data = true ->
  l2_no_end evs ->
  lzma2_write lc lp pb dict (Some p) data evs = Ok stream ->
  Forall (fun z => 0 < z) sizes ->
  exists s0, lzma2_new (stream ++ tail) dict (Some p) = Ok s0 /\
    forall fuel, (length data + 2 <= fuel)%nat ->
    exists s_end, lzma2_read_all fuel s0 sizes sizes [] = Ok (data, 0, s_end) /\ m_in s_end = tail.
Proof. exact lzma2_roundtrip_preset. Qed.
Print Assumptions C01_lzma2_roundtrip_preset.

(* non-vacuity: the hypotheses hold for a stream with an LZMA chunk, a stored chunk, an independent
   restart and a second LZMA chunk *)
Example C01_lzma2_roundtrip_hyps :
  bytes_ok ex_data = true /\ l2_no_end ex_evs /\ lzma2_write 3 0 2 4096 None ex_data ex_evs = Ok ex_stream.
Proof. exact lzma2_roundtrip_hyps. Qed.

(* the side conditions are needed *)
Theorem C01_lzma2_end_marker_refuted :
  exists data evs, bytes_ok data = true /\ ~ l2_no_end evs /\
    l2_run 3 0 2 4096 None data evs [5] = Ok ([], E_INVALID_INPUT).
Proof. exact lzma2_end_marker_refuted. Qed.
Print Assumptions C01_lzma2_end_marker_refuted.
