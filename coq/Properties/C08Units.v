(* Properties/C08Units.v — C08, data side: the work units of the multi-threaded LZMA2 / LZIP readers
   and writers with the CONCRETE codecs.  Properties/C08.v proves the protocol (every schedule
   hands out f 0, f 1, ... in order, for an abstract unit function f) and the cutting over an
   abstract chunk decoder (C08_unit_cut_sound, hypothesis: a dictionary-reset chunk decodes the same
   from every state).  Here that hypothesis is discharged for the LZMA2 reader model of C01/C16
   (Codec/Lzma2Dec.v) and the statements are closed: what the workers compute from the units, in
   unit order, is what the single-threaded reader returns.  Only theorem statements, closed by
   [exact] of lemmas of Mt/Lzma2Units*Proofs.v and Mt/LzipUnitsProofs.v.

   Vocabulary (Mt/Lzma2Units.v):
     dstate         what the decoding of later chunks depends on: history since the last dictionary
                    reset, coder + tables (while need_props = false), need_props, need_dict_reset;
     astep ds d k   one whole chunk k decoded from state d with a [ds]-byte buffer: new state and
                    output, None = the reader fails somewhere in the chunk;
     d_init ds p    LZMA2Reader::new with preset dictionary p (LZMA2ReaderMT gives every worker
                    the same p);
     adecode        chunks up to the 0x00 control byte; result: data and the bytes after it;
     l2_read_result fuel u dict p sizes   LZMA2Reader::new(u, dict, p), then read() calls with the
                    destination sizes [sizes] (cyclically) until one returns 0 bytes or fails:
                    Ok (bytes, status, final state), status 0 = end of stream, else the error kind;
     l2_decodes u dict p du   l2_read_result returns du, status 0, end marker reached - for every
                    history of destination sizes and every sufficient number of read() calls;
     cut_lzma2      (Mt/Units.v) read_and_dispatch_chunk on the byte stream: the work units, each
                    closed by the 0x00 the coordinator appends. *)
From LzVerif Require Import Base.Bytes Codec.LzmaEnc Codec.LzmaWriters Codec.Lzma2Dec Codec.Lzma2ExamplesProofs
  Format.LzipFormat Format.LzipDict Format.LzipProofs Format.PayloadLzma1Proofs Format.ContainerCondProofs
  Format.ComposeProofs Format.ComposeExamplesProofs
  Mt.Units Mt.UnitsProofs Mt.Lzma2Units Mt.Lzma2UnitsAbsProofs Mt.Lzma2UnitsSimProofs Mt.Lzma2UnitsProofs
  Mt.LzipUnitsProofs.
Local Open Scope Z_scope.

(* The hypothesis of C08_unit_cut_sound, for the concrete decoder: a chunk whose control byte is
   0x01 or >= 0xE0 (is_independent_chunk of read_and_dispatch_chunk) produces the same output and
   the same successor state from ANY state as from the initial state - without or with a preset
   dictionary (the chunk resets the dictionary, so the preset is dropped like any other history). *)
Theorem C08_lzma2_units_independent : forall (ds : Z) (preset : option (list Z)) (d : dstate) (k : chunk),
  chunk_independent k = true -> astep ds d k = astep ds (d_init ds preset) k.
Proof. exact astep_indep_init. Qed.
Print Assumptions C08_lzma2_units_independent.

(* hence, with no hypothesis left: decoding the units one by one, each from the initial state, and
   concatenating = decoding the whole chunk sequence (error case included); dependent chunks stay
   in one unit *)
Theorem C08_lzma2_unit_cut_sound : forall (ds : Z) (preset : option (list Z)) (ks : list chunk),
  decode_units dstate (astep ds) (d_init ds preset) (cut_chunks ks) =
  decode_chunks dstate (astep ds) (d_init ds preset) ks.
Proof. exact lzma2_unit_cut_sound. Qed.
Print Assumptions C08_lzma2_unit_cut_sound.

(* The chunk decoder is what LZMA2Reader computes (model of C01/C16), for EVERY source byte string
   and whatever sizes the destination buffers of the read() calls have: *)
Theorem C08_lzma2_reader_sound : forall dict preset input data tail,
  bytes_ok input = true ->
  adecode (l2_wsize dict) (d_init (l2_wsize dict) preset) input = Some (data, tail) ->
  forall sizes fuel, Forall (fun z => 0 < z) sizes -> (length data + 2 <= fuel)%nat ->
  exists s0 s_end, lzma2_new input dict preset = Ok s0 /\
    lzma2_read_all fuel s0 sizes sizes [] = Ok (data, 0, s_end) /\
    m_end_reached s_end = true /\ m_error s_end = None /\ m_in s_end = tail.
Proof. exact reader_sound. Qed.
Print Assumptions C08_lzma2_reader_sound.

(* ... and conversely: a read history that ends with status 0 (a read() returned 0 bytes; every
   error kind of the reader model is non-zero) has reached the end marker and returned what the chunk
   decoder says - so where the chunk decoder fails, every read history fails *)
Theorem C08_lzma2_reader_complete : forall dict preset input sizes fuel s0 data s_end,
  bytes_ok input = true ->
  lzma2_new input dict preset = Ok s0 -> Forall (fun z => 0 < z) sizes ->
  lzma2_read_all fuel s0 sizes sizes [] = Ok (data, 0, s_end) ->
  adecode (l2_wsize dict) (d_init (l2_wsize dict) preset) input = Some (data, m_in s_end) /\
  m_end_reached s_end = true.
Proof. exact reader_complete0. Qed.
Print Assumptions C08_lzma2_reader_complete.

(* the byte-level cutting of read_and_dispatch_chunk is the chunk-level cutting, each unit closed
   by 0x00, and the source ends cleanly *)
Theorem C08_lzma2_cut_units : forall ks rest, Forall chunk_stable ks ->
  cr_units (cut_lzma2 (flat ks ++ 0 :: rest)) = map unit_bytes (cut_chunks ks) /\
  cr_end (cut_lzma2 (flat ks ++ 0 :: rest)) = None.
Proof. exact cut_lzma2_units. Qed.
Print Assumptions C08_lzma2_cut_units.

(* LZMA2ReaderMT, data side.  For every byte stream that the single-threaded reader decodes (some
   history of read() calls returns [data] with status 0) - chunks independent or not,
   with or without preset dictionary: the coordinator cuts it without error, every work unit is
   decoded by a fresh reader (same dict_size, same preset dictionary: worker_thread_logic) to some
   [du] for every history of destination sizes, and the [du] in unit order concatenate to [data].
   With C08_mt_safety (units handed out in order, whatever the schedule) this is the reader clause
   of C08. *)
Theorem C08_lzma2_mt_reader_data : forall dict preset stream sizes fuel data s_end,
  bytes_ok stream = true -> Forall (fun z => 0 < z) sizes ->
  l2_read_result fuel stream dict preset sizes = Ok (data, 0, s_end) ->
  cr_end (cut_lzma2 stream) = None /\
  exists datas, Forall2 (fun u du => l2_decodes u dict preset du) (cr_units (cut_lzma2 stream)) datas /\
                concat datas = data.
Proof. exact lzma2_mt_reader_data. Qed.
Print Assumptions C08_lzma2_mt_reader_data.

(* LZMA2WriterMT, data side.  Every unit [data] is written by a fresh LZMA2Writer without preset
   dictionary and flushed (worker_thread_logic; mt_unit_written: the writer model accepts the
   encoder's decisions [evs] and writes body ++ [0]); the coordinator emits the bodies in order
   and one 0x00.  The single-threaded reader decodes that stream to the units' data in order, for
   every history of destination sizes (and then, by C08_lzma2_mt_reader_data, so do the workers of
   LZMA2ReaderMT on its units). *)
Theorem C08_lzma2_mt_writer_data : forall lc lp pb dict us tail,
  0 <= lc -> 0 <= lp -> lc + lp <= 4 -> 0 <= pb <= 4 -> dict <= 2147483648 ->
  Forall (mt_unit_written lc lp pb dict) us -> bytes_ok tail = true ->
  forall sizes fuel, Forall (fun z => 0 < z) sizes -> (length (mt_data us) + 2 <= fuel)%nat ->
  exists s0 s_end, lzma2_new (mt_bodies us ++ 0 :: tail) dict None = Ok s0 /\
    lzma2_read_all fuel s0 sizes sizes [] = Ok (mt_data us, 0, s_end) /\
    m_end_reached s_end = true /\ m_error s_end = None /\ m_in s_end = tail.
Proof. exact lzma2_mt_writer_data. Qed.
Print Assumptions C08_lzma2_mt_writer_data.

(* ... and multi-threaded on both sides: the units LZMA2ReaderMT cuts from that stream decode, each
   by a fresh reader, to pieces that concatenate to the written data *)
Theorem C08_lzma2_mt_writer_mt_reader : forall lc lp pb dict us tail,
  0 <= lc -> 0 <= lp -> lc + lp <= 4 -> 0 <= pb <= 4 -> dict <= 2147483648 ->
  Forall (mt_unit_written lc lp pb dict) us -> bytes_ok tail = true ->
  cr_end (cut_lzma2 (mt_bodies us ++ 0 :: tail)) = None /\
  exists datas, Forall2 (fun u du => l2_decodes u dict None du) (cr_units (cut_lzma2 (mt_bodies us ++ 0 :: tail))) datas /\
                concat datas = mt_data us.
Proof. exact lzma2_mt_writer_mt_reader. Qed.
Print Assumptions C08_lzma2_mt_writer_mt_reader.

(* LZIP.  A file of members (LZIPWriterMT: one member per work unit; any concatenation): the
   backward scan of LZIPReaderMT finds exactly the members, each member alone is decoded by a fresh
   LZIPReader (the worker) to its own content, and the single-threaded reader decodes the file to
   the contents in order.  Side conditions of C12_lzip_multi_lzma1 (lm_ok_l1: the encoder's
   decisions are accepted by the writer model, enough read() calls, u64 counters do not wrap). *)
Theorem C08_lzip_units_data : forall (ch : Z -> list Z -> list sym) (calls : nat) (m : lzm) (ms : list lzm),
  Forall (lm_ok_l1 ch calls) (m :: ms) ->
  scan_members (lm_file (l1_penc ch) (m :: ms)) = Ok (member_table 0 (map (lm_bytes (l1_penc ch)) (m :: ms))) /\
  Forall (fun x => lz_decode (lzip_payload_dec_n calls) lz_fixed (lm_bytes (l1_penc ch) x) = Ok (lm_content x, []))
         (m :: ms) /\
  lz_decode (lzip_payload_dec_n calls) lz_fixed (lm_file (l1_penc ch) (m :: ms)) =
    Ok (concat (map lm_content (m :: ms)), []).
Proof. exact lzip_units_data. Qed.
Print Assumptions C08_lzip_units_data.

(* ---- non-vacuity, evaluated --------------------------------------------------------------------- *)

(* independence: the stored chunk "0x01, 1 byte" decodes to the same output and successor state from
   the initial state and from a state with history, coder and tables *)
Example C08_units_independent_example :
  let k := mkChunk 1 [1; 0; 0; 33] in
  let d := mkD [9; 8; 7] (Some (coder_new 3 0 2)) PLeaf false false in
  astep 4096 d k = Some (mkD [33] None PLeaf true false, [33]) /\
  astep 4096 (d_init 4096 None) k = Some (mkD [33] None PLeaf true false, [33]) /\
  (* the dependent chunk 0x02 does see the history *)
  astep 4096 d (mkChunk 2 [2; 0; 0; 33]) = Some (mkD [33; 9; 8; 7] (Some (coder_new 3 0 2)) PLeaf false false, [33]) /\
  astep 4096 (d_init 4096 None) (mkChunk 2 [2; 0; 0; 33]) = None.
Proof. cbv zeta. repeat split; vm_compute; reflexivity. Qed.

(* the stream of C01's example (Lzma2ExamplesProofs.ex_stream): an LZMA chunk with dictionary reset,
   a DEPENDENT stored chunk, an LZMA chunk with dictionary reset, end marker.  The single-threaded
   reader returns the 10 bytes; the coordinator cuts two units (the dependent chunk stays with the
   first); fresh readers return 8 and 2 bytes. *)
(* [ex_done r] = data, status and end flag of a reader result (Mt/Lzma2UnitsProofs.v) *)
Example C08_lzma2_mt_reader_example :
  ex_done (l2_read_result 20 ex_stream 4096 None [3; 1]) = Some (ex_data, 0, true) /\
  cr_units (cut_lzma2 ex_stream) =
    [[224; 0; 5; 0; 7; 93; 0; 48; 152; 158; 4; 0; 0; 0; 2; 0; 1; 99; 100; 0];
     [224; 0; 1; 0; 6; 93; 0; 50; 153; 124; 0; 0; 0; 0]] /\
  map (fun u => ex_done (l2_read_result 20 u 4096 None [4])) (cr_units (cut_lzma2 ex_stream)) =
    [Some ([97; 98; 97; 98; 97; 98; 99; 100], 0, true); Some ([101; 102], 0, true)].
Proof. repeat split; vm_compute; reflexivity. Qed.

(* the same by the theorem: its hypotheses hold for this stream *)
Example C08_lzma2_mt_reader_instance :
  exists datas, Forall2 (fun u du => l2_decodes u 4096 None du) (cr_units (cut_lzma2 ex_stream)) datas /\
                concat datas = ex_data.
Proof.
  destruct (l2_read_result 20 ex_stream 4096 None [3; 1]) as [[[data stt] s_end]|e|e|] eqn:Hr;
    try (vm_compute in Hr; discriminate).
  assert (Hd : data = ex_data /\ stt = 0) by (vm_compute in Hr; inversion Hr; split; reflexivity).
  destruct Hd as (-> & ->).
  exact (proj2 (C08_lzma2_mt_reader_data 4096 None ex_stream [3; 1] 20 ex_data s_end eq_refl
                  ltac:(repeat constructor; lia) Hr)).
Qed.

(* a preset dictionary: the first unit starts with a chunk that does NOT reset the dictionary (the
   preset allows it), the second with one that does; every worker gets the preset *)
Example C08_lzma2_mt_reader_preset_example :
  let p := Some [97; 98; 99] in
  let stream := [2; 0; 0; 120; 1; 0; 0; 121; 2; 0; 0; 122; 0] in
  ex_done (l2_read_result 20 stream 4096 p [2]) = Some ([120; 121; 122], 0, true) /\
  cr_units (cut_lzma2 stream) = [[2; 0; 0; 120; 0]; [1; 0; 0; 121; 2; 0; 0; 122; 0]] /\
  map (fun u => ex_done (l2_read_result 20 u 4096 p [2])) (cr_units (cut_lzma2 stream)) =
    [Some ([120], 0, true); Some ([121; 122], 0, true)] /\
  (* without the preset dictionary the first unit is rejected, by the single reader too *)
  ex_done (l2_read_result 20 stream 4096 None [2]) = Some ([], E_INVALID_INPUT, false).
Proof. cbv zeta. repeat split; vm_compute; reflexivity. Qed.

(* LZMA2WriterMT: two units, each C01's example written by its own writer; the hypotheses of the
   theorem hold, and evaluated: the concatenation decodes to both data *)
(* ex_body = ex_stream without its end marker; ex_units = this unit twice (Mt/Lzma2UnitsProofs.v) *)
Example C08_lzma2_mt_writer_hyps : Forall (mt_unit_written 3 0 2 4096) ex_units.
Proof.
  assert (H : mt_unit_written 3 0 2 4096 (ex_data, ex_evs, ex_body)).
  { destruct lzma2_roundtrip_hyps as (Hb & Hne & Hw).
    split; [exact Hb|]. split; [exact Hne|]. rewrite Hw. reflexivity. }
  constructor; [exact H|]. constructor; [exact H|]. constructor.
Qed.

Example C08_lzma2_mt_writer_example :
  ex_done (l2_read_result 30 (mt_bodies ex_units ++ [0; 7; 7]) 4096 None [5]) = Some (ex_data ++ ex_data, 0, true) /\
  length (cr_units (cut_lzma2 (mt_bodies ex_units ++ [0; 7; 7]))) = 4%nat.
Proof. split; vm_compute; reflexivity. Qed.

(* LZIP: two members (C02's sample member twice) *)
Example C08_lzip_units_example :
  let m := mkLzm 205 5000 z_data in
  Forall (lm_ok_l1 ch1_ex 2) [m; m] /\
  scan_members (lm_file (l1_penc ch1_ex) [m; m]) =
    Ok [(0, zlen (lm_bytes (l1_penc ch1_ex) m)); (zlen (lm_bytes (l1_penc ch1_ex) m), zlen (lm_bytes (l1_penc ch1_ex) m))].
Proof.
  cbv zeta. split; [|vm_compute; reflexivity].
  assert (H : lm_ok_l1 ch1_ex 2 (mkLzm 205 5000 z_data)).
  { split; [|split; [cbn; lia|]; split; [exact z_member_ok | vm_compute; discriminate]].
    split; [exists 5120; split; [vm_compute; reflexivity | cbn; lia]|].
    split; [reflexivity|]. split; vm_compute; reflexivity. }
  constructor; [exact H|]. constructor; [exact H|]. constructor.
Qed.
