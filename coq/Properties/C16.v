(* Properties/C16.v — readers consume exactly the bytes of their stream.
   Only theorem statements, each closed by [exact] of a lemma proved elsewhere.
   PARTIAL: proved at the level where the question is decided - the range decoder (lazy
   normalisation one step behind the encoder's eager one, trailing normalize) and the LZMA2 chunk
   payload read; the LZMA/LZMA2/XZ readers around them are tied to the code by comparing the source
   position after end-of-stream with the model's unconsumed count on every run. *)
From LzVerif Require Import Base.Bytes Codec.Store Codec.Range Codec.ProbProofs Codec.LzWindow Codec.LzmaDec
  Codec.LzmaEnc Codec.LzmaAbs Codec.LzWindowProofs Codec.LzmaAbsProofs Codec.RangeEncProofs Codec.RangeProofs
  Codec.LzmaRoundtrip Codec.LzmaChunkProofs Codec.Lzma2Dec Codec.Lzma2FrameProofs.

(* Whatever follows the range-coded bytes ([tail], arbitrary) is left untouched: after the
   trailing normalize the unread input is exactly [tail], no byte beyond the end was requested
   (rd_over = 0) and code = 0 (is_finished / is_stream_finished accept). *)
Theorem C16_range_decoder_consumes_exactly :
  forall (A : Type) (p : prog A) (evs : list event) (a : A) (tail : list Z) (t0 : probs),
  probs_ok t0 -> forallb RangeEncProofs.ev_ok evs = true -> events_bits evs <= RC_MAX_BITS ->
  run_trace p evs = Some (Ok a, []) ->
  let '(e, t1) := renc_events renc_init t0 evs in
  let bytes := renc_bytes (renc_finish e) in
  exists d0 d1, rdec_init (bytes ++ tail) = Ok d0 /\ run_rc p d0 t0 = Ok (a, d1, t1) /\ probs_ok t1 /\
    rd_in (rdec_normalize d1) = tail /\ rd_code (rdec_normalize d1) = 0 /\ rd_over (rdec_normalize d1) = 0.
Proof. exact rc_roundtrip. Qed.
Print Assumptions C16_range_decoder_consumes_exactly.

(* The same through LZMADecoder::decode over the window, for any validated symbol run. *)
Theorem C16_decode_leaves_tail :
  forall c h hist w syms evs c' h' t0 tail n,
  no_end syms -> hist_rel h hist -> data_ok h -> reps_nonneg c ->
  h_dict h <= 2147483648 -> (h_dict h <= w_size w \/ h_total h - h_base h <= w_size w) ->
  enc_syms c h syms = Ok (evs, c', h') ->
  probs_ok t0 -> events_bits evs <= RC_MAX_BITS ->
  Rel w hist -> coder_ok c (w_full w) -> w_pending_len w = 0 ->
  Z.of_nat n = h_pos h' - h_pos h -> w_limit w = w_pos w + Z.of_nat n ->
  let bytes := renc_bytes (renc_finish (fst (renc_events renc_init t0 evs))) in
  exists d0 w1 d1 hist',
    rdec_init (bytes ++ tail) = Ok d0 /\
    lzma_decode c w d0 t0 = Ok (c', w1, Ok tt, d1, snd (renc_events renc_init t0 evs)) /\
    Rel w1 hist' /\ hist_rel h' hist' /\ zlen hist' = zlen hist + Z.of_nat n /\
    w_pending_len w1 = 0 /\ w_start w1 = w_start w /\ w_pos w1 = w_pos w + Z.of_nat n /\
    rd_in d1 = tail /\ rd_code d1 = 0 /\ rd_over d1 = 0.
Proof. exact chunk_roundtrip. Qed.
Print Assumptions C16_decode_leaves_tail.

(* An LZMA2 chunk's payload read takes exactly compressed_size bytes from the source. *)
Theorem C16_lzma2_payload_exact : forall input csize rc rest,
  rdec_prepare input csize = Ok (rc, rest) ->
  exists b1 b2 b3 b4 payload,
    input = 0 :: b1 :: b2 :: b3 :: b4 :: payload ++ rest /\
    length payload = Z.to_nat (csize - 5) /\ 5 <= csize /\
    rd_in rc = payload /\ rd_over rc = 0 /\ rd_range rc = 4294967295 /\
    rd_code rc = ((b1 * 256 + b2) * 256 + b3) * 256 + b4.
Proof. exact rdec_prepare_exact. Qed.
Print Assumptions C16_lzma2_payload_exact.
