(* Properties/C06Readers.v — C06 for the reader layer: the models of LZMAReader (Codec/Lzma1.v) and
   LZMA2Reader (Codec/Lzma2Dec.v) are TOTAL on arbitrary input, and with them the executable
   whole-file models of XZReader / LZIPReader with their concrete payload decoders.
   "Total": the result is Ok or Err - never Panic (no overflow, no index out of range, no unwrap on
   None), never Fuel (every loop ends within the budget the model gives it, and a whole read
   history ends within a number of read() calls that is a stated function of the input length and
   the requested sizes: [ra_fuel]).  The bytes returned are bounded by a constant times the input
   length (LZMA: 8000, LZMA2: 699051 = 2^21/3 per input byte).
   Only theorem statements, closed by [exact] of lemmas proved in Codec/TotalCoreProofs.v,
   Codec/Total1Proofs.v, Codec/Total2Proofs.v and Format/TotalClosedProofs.v, and Examples that
   evaluate the statements on hostile inputs (random bytes, a distance outside the dictionary,
   truncated streams, reserved control bytes, invalid properties, border dictionary sizes).

   The invariants ([inv1] / [inv2], defined in the proof files): the window represents a byte
   history (Rel), the coder state is in range and its rep0 inside the dictionary when it is used,
   the probability tables are valid, a pending copy lies inside the dictionary, the range register
   is 32-bit, the window is flushed (start = pos); for LZMAReader nothing was fetched past the end
   of the source; for LZMA2Reader the source is a byte string, a pending copy exists only inside a
   chunk, and an LZMA chunk is only entered with a coder (need_props = false).
   [rinv1 s] = end of stream reached or [inv1 s]; [rinv2 s] = no sticky error, source bytes, and
   (end reached or [inv2 s]).  After an error lzma1_read_all stops; lzma2_read_all records it
   (lzma2_set_error) and every later read returns it (C05: lzma2_error_sticky).

   Still not theorems: the BCJ / BCJ2 readers (the executable XZ model answers Err for chains with
   BCJ filters), the allocation bound "dictionary + O(input)" of the real buffers, stack depth. *)
From LzVerif Require Import Base.Bytes Codec.Store Codec.Range Codec.ProbProofs Codec.LzWindow Codec.LzmaDec
  Codec.LzmaAbs Codec.LzWindowProofs Codec.ProgProofs Codec.LzmaAbsProofs Codec.LzmaTotalProofs
  Codec.Lzma1 Codec.Lzma2Dec Format.XzFormat Format.LzipFormat Format.XzProofs Format.ContainerRefutations
  Format.TotalProofs Codec.TotalCoreProofs Codec.Total1Proofs Codec.Total2Proofs Format.TotalClosedProofs
  Format.TotalExamplesProofs.

(* ---------------------------------------------------------------------------------------------
   The decoding core, with everything a reader needs afterwards: from a consistent state and on
   ANY input LZMADecoder::decode returns; the window still represents a byte history, tables and
   registers stay valid, a pending copy stays inside the dictionary, on status Ok the window is
   filled exactly up to the limit, and - when no byte was fetched past the end of the source -
   bytes produced + bytes pending cost at least 1/20 bit each of the range decoder's potential
   (mu = 400 * bytes left + bits the current range can still take). *)
Theorem C06_decode_post : forall c w hist d t,
  Rel w hist -> hist_bytes hist -> coder_ok c (w_full w) -> w_pos w <= w_limit w ->
  (0 < w_pending_len w -> 0 <= w_pending_dist w < w_full w) ->
  probs_ok t -> rdec_wf d ->
  exists c1 w1 st d1 t1 hist1,
    lzma_decode c w d t = Ok (c1, w1, st, d1, t1) /\
    Rel w1 hist1 /\ hist_bytes hist1 /\ probs_ok t1 /\ rdec_wf d1 /\
    w_size w1 = w_size w /\ w_limit w1 = w_limit w /\ w_start w1 = w_start w /\
    w_pos w <= w_pos w1 <= w_limit w /\
    (0 < w_pending_len w1 -> 0 <= w_pending_dist w1 < w_full w1) /\
    ((st = Ok tt /\ coder_ok c1 (w_full w1) /\ w_pos w1 = w_limit w) \/ exists e, st = Err e) /\
    (length (rd_in d1) <= length (rd_in d))%nat /\ rd_over d <= rd_over d1 /\
    (0 <= rd_over d -> rd_over d1 = 0 ->
       20 * mu d1 + w_pending_len w1 + (w_pos w1 - w_pos w) <= 20 * mu d + w_pending_len w).
Proof. exact lzma_decode_post. Qed.
Print Assumptions C06_decode_post.

(* Bits decoded are paid for by source bytes: a program that asked for j - k bits and did not run
   past the end of the source lowered the potential by at least j - k. *)
Theorem C06_bits_cost_input : forall (A : Type) (Q : A -> Z -> Prop) (p : prog A) k,
  pbits Q p k -> forall d t a d' t', probs_ok t -> rdec_wf d -> 0 <= rd_over d ->
  run_rc p d t = Ok (a, d', t') -> rd_over d' = 0 ->
  exists j, Q a j /\ mu d' + (j - k) <= mu d.
Proof. exact @run_rc_pbits. Qed.
Print Assumptions C06_bits_cost_input.

(* ---------------------------------------------------------------------------------------------
   LZMAReader *)

(* construction (construct2: raw parameters; new_mem_limit: the 13-byte .lzma header) returns Ok or
   Err for every parameter vector of the Rust types, and establishes the invariant *)
Theorem C06_lzma1_construct_total : forall input uncomp lc lp pb dict preset,
  0 <= lc -> 0 <= lp -> 0 <= pb -> 0 <= uncomp -> preset_bytes preset ->
  match lzma1_construct2 input uncomp lc lp pb dict preset with
  | Ok s0 => inv1 s0 /\ l_end_reached s0 = false /\ pot1 s0 <= 8000 * zlen input /\
             (length (rd_in (l_rc s0)) <= length input)%nat
  | Err _ => True
  | _ => False
  end.
Proof. exact construct2_inv. Qed.
Print Assumptions C06_lzma1_construct_total.

Theorem C06_lzma1_header_total : forall input mem preset, bytes_ok input = true -> preset_bytes preset ->
  match lzma1_new_mem_limit input mem preset with
  | Ok s0 => inv1 s0 /\ l_end_reached s0 = false /\ pot1 s0 <= 8000 * zlen input /\
             (length (rd_in (l_rc s0)) <= length input)%nat
  | Err _ => True
  | _ => False
  end.
Proof. exact new_mem_limit_inv. Qed.
Print Assumptions C06_lzma1_header_total.

(* every read(): Ok or Err (the model's own budget of buflen + 2 loop iterations suffices), the
   invariant holds again, at most buflen bytes, the source only shrinks, and a call that neither
   fails nor reaches the end fills the buffer *)
Theorem C06_lzma1_read_total : forall s n, rinv1 s ->
  (exists e, lzma1_read s n = Err e) \/
  exists out s1, lzma1_read s n = Ok (out, s1) /\ rinv1 s1 /\
    zlen out <= Z.max 0 n /\ zlen out + pot1 s1 <= pot1 s /\
    (length (rd_in (l_rc s1)) <= length (rd_in (l_rc s)))%nat /\
    (l_end_reached s1 = false -> 0 < n -> zlen out = n).
Proof. exact read1_total. Qed.
Print Assumptions C06_lzma1_read_total.

(* a whole read history, any destination sizes (zero and negative sizes are no-ops; the cycled list
   must contain a positive size or be empty = 4096): ends with Ok (end of stream) or Err within
   ra_fuel sizes all (8000 * input length) calls; at most 8000 bytes per input byte *)
Theorem C06_lzma1_raw_total : forall input uncomp lc lp pb dict preset sizes all fuel,
  0 <= lc -> 0 <= lp -> 0 <= pb -> 0 <= uncomp -> preset_bytes preset -> sizes_ok all ->
  (ra_fuel sizes all (8000 * zlen input) <= fuel)%nat ->
  match lzma1_construct2 input uncomp lc lp pb dict preset with
  | Ok s0 => total1 (lzma1_read_all fuel s0 sizes all []) (8000 * zlen input)
  | Err _ => True
  | _ => False
  end.
Proof. exact lzma1_raw_total. Qed.
Print Assumptions C06_lzma1_raw_total.

(* new_with_props: any properties byte, any dict_size *)
Theorem C06_lzma1_props_total : forall input uncomp props dict preset sizes all fuel,
  0 <= props -> 0 <= uncomp -> preset_bytes preset -> sizes_ok all ->
  (ra_fuel sizes all (8000 * zlen input) <= fuel)%nat ->
  match lzma1_construct1 input uncomp props dict preset with
  | Ok s0 => total1 (lzma1_read_all fuel s0 sizes all []) (8000 * zlen input)
  | Err _ => True
  | _ => False
  end.
Proof. exact lzma1_props_total. Qed.
Print Assumptions C06_lzma1_props_total.

Theorem C06_lzma1_hdr_total : forall input mem preset sizes all fuel,
  bytes_ok input = true -> preset_bytes preset -> sizes_ok all ->
  (ra_fuel sizes all (8000 * zlen input) <= fuel)%nat ->
  match lzma1_new_mem_limit input mem preset with
  | Ok s0 => total1 (lzma1_read_all fuel s0 sizes all []) (8000 * zlen input)
  | Err _ => True
  | _ => False
  end.
Proof. exact lzma1_hdr_total. Qed.
Print Assumptions C06_lzma1_hdr_total.

(* the hypothesis [sizes_ok] is needed, and is about the driver of the read history, not about the
   reader: a history of zero-size buffers only never reaches a call that could report the end *)
Theorem C06_zero_sizes_need_fuel : forall fuel s acc, lzma1_read_all fuel s [0] [0] acc = Fuel.
Proof. exact read_all_zero_sizes_fuel. Qed.
Print Assumptions C06_zero_sizes_need_fuel.

(* ---------------------------------------------------------------------------------------------
   LZMA2Reader *)

(* LZMA2Reader::new never fails (any dict_size: clamped), and establishes the invariant *)
Theorem C06_lzma2_new_total : forall input dict preset, bytes_ok input = true -> preset_bytes preset ->
  exists s0, lzma2_new input dict preset = Ok s0 /\ rinv2 s0 /\ inv2 s0 /\ m_end_reached s0 = false /\
             m_in s0 = input /\ P2 s0 = 2097152 * zlen input.
Proof. exact lzma2_new_inv. Qed.
Print Assumptions C06_lzma2_new_total.

(* the chunk header: any control byte, sizes, properties byte *)
Theorem C06_lzma2_header_total : forall s, inv2 s -> m_uncompressed_size s = 0 ->
  (exists e, lzma2_chunk_header s = Err e) \/
  exists s1, lzma2_chunk_header s = Ok s1 /\ m_error s1 = m_error s /\
    (length (m_in s1) <= length (m_in s))%nat /\
    ((m_end_reached s1 = true /\ P2 s1 <= P2 s /\ 0 <= P2 s1 /\ bytes_ok (m_in s1) = true) \/
     (m_end_reached s1 = false /\ inv2 s1 /\ 0 < m_uncompressed_size s1 /\ P2 s1 <= P2 s /\
      w_size (m_win s1) = w_size (m_win s) /\
      (w_pos (m_win s1) = w_size (m_win s1) -> w_pos (m_win s) = w_size (m_win s)))).
Proof. exact header2_total. Qed.
Print Assumptions C06_lzma2_header_total.

(* every read(): Ok or Err within the model's budget of 2 * buflen + 4 loop iterations *)
Theorem C06_lzma2_read_total : forall s n, rinv2 s ->
  (exists e, lzma2_read s n = Err e) \/
  exists out s1, lzma2_read s n = Ok (out, s1) /\ rinv2 s1 /\
    zlen out <= Z.max 0 n /\ zlen out + pot2 s1 <= pot2 s /\
    (length (m_in s1) <= length (m_in s))%nat /\
    (m_end_reached s1 = false -> 0 < n -> zlen out = n).
Proof. exact read2_total. Qed.
Print Assumptions C06_lzma2_read_total.

(* a whole read history over ANY byte string: ends (status 0 = end of stream, otherwise the error
   kind) within ra_fuel sizes all (699051 * input length) calls *)
Theorem C06_lzma2_total : forall input dict preset sizes all fuel,
  bytes_ok input = true -> preset_bytes preset -> sizes_ok all ->
  (ra_fuel sizes all (699051 * zlen input) <= fuel)%nat ->
  exists s0, lzma2_new input dict preset = Ok s0 /\
    exists out st s1, lzma2_read_all fuel s0 sizes all [] = Ok (out, st, s1) /\ zlen out <= 699051 * zlen input.
Proof. exact lzma2_total. Qed.
Print Assumptions C06_lzma2_total.

(* ---------------------------------------------------------------------------------------------
   the containers with their concrete payload decoders *)

(* the hypothesis of C06_lzip_decode_total holds for LZMAReader read in 4096-byte calls with the
   model's budget of 64 + 16 * (source length) calls - on any list of integers *)
Theorem C06_lzip_payload_dec_shr : forall d s, shrk 0 s (lzip_payload_dec d s).
Proof. exact lzip_payload_dec_shr. Qed.
Print Assumptions C06_lzip_payload_dec_shr.

(* any larger budget of read() calls does as well *)
Theorem C06_lzip_payload_dec_n_shr : forall calls d s, (64 + 16 * length s <= calls)%nat ->
  shrk 0 s (lzip_payload_dec_n calls d s).
Proof. exact lzip_payload_dec_n_shr. Qed.
Print Assumptions C06_lzip_payload_dec_n_shr.

Theorem C06_lzip_decode_c_total : forall fx f, total (lz_decode_c fx f).
Proof. exact lz_decode_c_total. Qed.
Print Assumptions C06_lzip_decode_c_total.

(* LZMA2Reader read in 4096-byte calls with the model's budget of 2 + 171 * (source length) calls,
   on every byte string; the unread rest is a byte string no longer than the source *)
Theorem C06_lzma2_payload_dec_shrb : forall d s, bytes_ok s = true -> shrkb s (lzma2_payload_dec d s).
Proof. exact lzma2_payload_dec_shrb. Qed.
Print Assumptions C06_lzma2_payload_dec_shrb.

Theorem C06_lzma2_payload_dec_n_shrb : forall calls d s, bytes_ok s = true -> (2 + 171 * length s <= calls)%nat ->
  shrkb s (lzma2_payload_dec_n calls d s).
Proof. exact lzma2_payload_dec_n_shrb. Qed.
Print Assumptions C06_lzma2_payload_dec_n_shrb.

(* XZReader (stream / block / index / footer / padding parsing, Delta readers, LZMA2Reader) on
   every byte string; fx11: the F11 repair, cf. C06_xz_index_alloc_refuted *)
Theorem C06_xz_decode_c_total : forall fx multi f, fx11 fx = true -> bytes_ok f = true -> total (xz_decode_c fx multi f).
Proof. exact xz_decode_c_total. Qed.
Print Assumptions C06_xz_decode_c_total.

(* ---------------------------------------------------------------------------------------------
   Non-vacuity: the statements evaluated on hostile inputs *)


(* random bytes, unknown / declared size; a distance outside the dictionary; a truncated stream; a
   preset dictionary with border parameters (lc=8, lp=4, pb=4, dict=0) and a zero-size read first *)
Example C06_lzma1_hostile_evaluated :
  show1 (lzma1_construct2 rnd U64_MAX 3 0 2 4096 None) 60 [7; 0; 3] = Err E_OTHER /\
  show1 (lzma1_construct2 rnd 20 3 0 2 4096 None) 60 [7; 0; 3] = Err E_OTHER /\
  show1 (lzma1_construct2 ones U64_MAX 3 0 2 4096 None) 60 [7; 0; 3] = Err E_OTHER /\
  show1 (lzma1_construct2 zeros5 U64_MAX 3 0 2 4096 None) 60 [7; 0; 3] = Err E_UNEXPECTED_EOF /\
  show1 (lzma1_construct2 zeros5 3 8 4 4 0 (Some [1; 2; 3])) 60 [0; 2] = Err E_UNEXPECTED_EOF /\
  show1 (lzma1_construct2 rnd U64_MAX 9 0 2 4096 None) 60 [7] = Err (100 + E_INVALID_INPUT) /\
  show1 (lzma1_construct2 rnd U64_MAX 3 0 2 4294967295 None) 60 [7] = Err (100 + E_INVALID_INPUT) /\
  show1 (lzma1_construct1 ones U64_MAX 224 0 None) 60 [7; 0; 3] = Err E_OTHER /\
  show1 (lzma1_construct1 ones U64_MAX 225 0 None) 60 [7; 0; 3] = Err (100 + E_INVALID_INPUT).
Proof. vm_compute. repeat split; reflexivity. Qed.

(* the .lzma header: random stream behind a valid header; props = 225; dict = 0xFFFFFFFF;
   dict = 0xFFFFFFF0 with a small declared size (the buffer shrinks) and with a preset (it does not) *)
Example C06_lzma1_header_hostile_evaluated :
  show1 (lzma1_new_mem_limit ([93; 0; 0; 16; 0; 255; 255; 255; 255; 255; 255; 255; 255] ++ rnd) 100000 None) 60 [7; 0; 3] = Err E_OTHER /\
  show1 (lzma1_new_mem_limit ([225; 0; 0; 16; 0; 255; 255; 255; 255; 255; 255; 255; 255] ++ rnd) 100000 None) 60 [7; 0; 3] = Err (100 + E_INVALID_INPUT) /\
  show1 (lzma1_new_mem_limit ([93; 255; 255; 255; 255; 5; 0; 0; 0; 0; 0; 0; 0] ++ rnd) 4294967295 None) 60 [7; 0; 3] = Err (100 + E_INVALID_INPUT) /\
  show1 (lzma1_new_mem_limit ([93; 240; 255; 255; 255; 5; 0; 0; 0; 0; 0; 0; 0] ++ rnd) 4294967295 None) 60 [7; 0; 3] = Err E_OTHER /\
  show1 (lzma1_new_mem_limit ([93; 240; 255; 255; 255; 5; 0; 0; 0; 0; 0; 0; 0] ++ rnd) 4294967295 (Some [1; 2; 3])) 60 [7; 0; 3] = Err E_INVALID_DATA /\
  show1 (lzma1_new_mem_limit ([93; 0; 0; 16; 0; 255; 255; 255; 255; 255; 255; 255; 255] ++ rnd) 10 None) 60 [7; 0; 3] = Err (100 + E_OUT_OF_MEMORY) /\
  show1 (lzma1_new_mem_limit [93; 0; 0; 16] 100000 None) 60 [7] = Err (100 + E_UNEXPECTED_EOF).
Proof. vm_compute. repeat split; reflexivity. Qed.

(* the theorems apply to these inputs (their hypotheses hold) *)
Example C06_lzma1_raw_instance : forall fuel, (ra_fuel [7; 0; 3]%Z [7; 0; 3]%Z (8000 * zlen rnd) <= fuel)%nat ->
  match lzma1_construct2 rnd 20 3 0 2 4096 None with
  | Ok s0 => total1 (lzma1_read_all fuel s0 [7; 0; 3] [7; 0; 3] []) (8000 * zlen rnd)
  | Err _ => True
  | _ => False
  end.
Proof.
  intros fuel Hf. apply C06_lzma1_raw_total; [lia | lia | lia | lia | exact I | exact sizes_703 | exact Hf].
Qed.

Example C06_lzma1_hdr_instance : forall fuel,
  let input := [93; 240; 255; 255; 255; 5; 0; 0; 0; 0; 0; 0; 0] ++ rnd in
  (ra_fuel [7; 0; 3]%Z [7; 0; 3]%Z (8000 * zlen input) <= fuel)%nat ->
  match lzma1_new_mem_limit input 4294967295 (Some [1; 2; 3]) with
  | Ok s0 => total1 (lzma1_read_all fuel s0 [7; 0; 3] [7; 0; 3] []) (8000 * zlen input)
  | Err _ => True
  | _ => False
  end.
Proof.
  intros fuel input Hf. apply C06_lzma1_hdr_total; [reflexivity | reflexivity | exact sizes_703 | exact Hf].
Qed.

Example C06_lzma1_props_instance : forall fuel, (ra_fuel [7; 0; 3]%Z [7; 0; 3]%Z (8000 * zlen ones) <= fuel)%nat ->
  match lzma1_construct1 ones U64_MAX 224 0 None with
  | Ok s0 => total1 (lzma1_read_all fuel s0 [7; 0; 3] [7; 0; 3] []) (8000 * zlen ones)
  | Err _ => True
  | _ => False
  end.
Proof.
  intros fuel Hf. apply C06_lzma1_props_total; [lia | unfold U64_MAX; lia | exact I | exact sizes_703 | exact Hf].
Qed.

(* the state after construction on random bytes satisfies the invariant, and the first read() on it
   is the distance error *)
Example C06_lzma1_read_instance :
  match lzma1_construct2 rnd U64_MAX 3 0 2 4096 None with
  | Ok s0 => rinv1 s0 /\ (match lzma1_read s0 7 with Err e => e =? E_OTHER | _ => false end) = true
  | _ => False
  end.
Proof.
  pose proof (C06_lzma1_construct_total rnd U64_MAX 3 0 2 4096 None ltac:(lia) ltac:(lia) ltac:(lia) ltac:(unfold U64_MAX; lia) I) as H.
  assert (Hc : (match lzma1_construct2 rnd U64_MAX 3 0 2 4096 None with
                | Ok s0 => match lzma1_read s0 7 with Err e => e =? E_OTHER | _ => false end
                | _ => false end) = true) by (vm_compute; reflexivity).
  destruct (lzma1_construct2 rnd U64_MAX 3 0 2 4096 None) as [s0|e|e|]; try discriminate.
  destruct H as (Hi & _). split; [right; exact Hi | exact Hc].
Qed.


(* LZMA2: random bytes with dict_size 0; an LZMA chunk whose first symbol is a match into the empty
   dictionary, dict_size 0xFFFFFFFF; properties byte 225; a stored chunk cut short; stored chunks
   followed by the reserved control byte 3; a chunk without the mandatory dictionary reset; the same
   allowed after a preset dictionary; an LZMA chunk without properties; an LZMA chunk whose coded
   data ends early (reads past the chunk buffer, then the end-of-chunk check) *)
Example C06_lzma2_hostile_evaluated :
  show2 (lzma2_new rnd 0 None) 60 [7; 0; 3] = Ok ([], 0) /\
  show2 (lzma2_new (224 :: 0 :: 9 :: 0 :: 11 :: 93 :: ones) 4294967295 None) 60 [7; 0; 3] = Ok ([], E_OTHER) /\
  show2 (lzma2_new (224 :: 0 :: 9 :: 0 :: 11 :: 225 :: ones) 4096 None) 60 [7; 0; 3] = Ok ([], E_INVALID_INPUT) /\
  show2 (lzma2_new [1; 0; 4; 10; 20; 30] 4096 None) 60 [2; 0] = Ok ([10; 20], E_UNEXPECTED_EOF) /\
  show2 (lzma2_new [1; 0; 2; 10; 20; 30; 2; 0; 1; 40; 50; 3] 4096 None) 60 [2; 0] = Ok ([10; 20; 30; 40], E_INVALID_INPUT) /\
  show2 (lzma2_new [2; 0; 2; 10; 20; 30; 0] 4096 None) 60 [2; 0] = Ok ([], E_INVALID_INPUT) /\
  show2 (lzma2_new [2; 0; 2; 10; 20; 30; 0] 4096 (Some [9; 9])) 60 [2; 0] = Ok ([10; 20; 30], 0) /\
  show2 (lzma2_new [128; 0; 2; 0; 5; 0; 0; 0; 0; 0] 4096 (Some [9; 9])) 60 [2; 0] = Ok ([], E_INVALID_INPUT) /\
  show2 (lzma2_new (192 :: 0 :: 2 :: 0 :: 4 :: 0 :: zeros5) 4096 (Some [9; 9])) 60 [2; 0] = Ok ([0; 0], E_INVALID_INPUT).
Proof. vm_compute. repeat split; reflexivity. Qed.

Example C06_lzma2_instance : forall fuel,
  let input := 224 :: 0 :: 9 :: 0 :: 11 :: 93 :: ones in
  (ra_fuel [2; 0]%Z [2; 0]%Z (699051 * zlen input) <= fuel)%nat ->
  exists s0, lzma2_new input 4294967295 (Some [9; 9]) = Ok s0 /\
    exists out st s1, lzma2_read_all fuel s0 [2; 0] [2; 0] [] = Ok (out, st, s1) /\ zlen out <= 699051 * zlen input.
Proof.
  intros fuel input Hf. apply C06_lzma2_total; [reflexivity | reflexivity | exact sizes_20 | exact Hf].
Qed.

(* the state after construction satisfies the invariant; the header of an LZMA chunk with invalid
   properties is an error, read() reports it *)
Example C06_lzma2_read_instance :
  exists s0, lzma2_new (224 :: 0 :: 9 :: 0 :: 11 :: 225 :: ones) 0 None = Ok s0 /\ rinv2 s0 /\ inv2 s0 /\
             m_uncompressed_size s0 = 0 /\
             lzma2_chunk_header s0 = Err E_INVALID_INPUT /\ lzma2_read s0 5 = Err E_INVALID_INPUT.
Proof.
  destruct (C06_lzma2_new_total (224 :: 0 :: 9 :: 0 :: 11 :: 225 :: ones) 0 None eq_refl I) as (s0 & Hn & Hr & Hi & _).
  exists s0. split; [exact Hn|]. split; [exact Hr|]. split; [exact Hi|].
  unfold lzma2_new, lzma2_get_dict_size in Hn. cbn [obind] in Hn. inversion Hn; subst s0.
  split; [reflexivity|]. split; vm_compute; reflexivity.
Qed.

(* why the LZMA2 statements ask for a byte string: the model copies source elements into the
   dictionary (stored chunk) and indexes the literal tables with them; an element 1000 - not a u8,
   impossible in the Rust code - lands outside the table (the model's Panic 21 = slice index) *)
Example C06_lzma2_model_needs_bytes :
  match lzma2_new [1; 0; 0; 1000; 192; 0; 0; 0; 4; 0; 0; 0; 0; 0; 0] 4096 None with
  | Ok s0 => match lzma2_read s0 5 with Panic e => e =? 21 | _ => false end
  | _ => false
  end = true.
Proof. vm_compute. reflexivity. Qed.

(* containers: LZIP header + hostile LZMA stream; XZ stream header + random bytes; the hostile index *)
Example C06_containers_hostile_evaluated :
  lz_decode_c lz_fixed ([76; 90; 73; 80; 1; 12] ++ ones ++ rnd) = Err E_OTHER /\
  lz_decode_c lz_fixed ([76; 90; 73; 80; 1; 12] ++ rnd) = Err E_OTHER /\
  lz_decode_c lz_fixed ([76; 90; 73; 80; 1; 12] ++ zeros5) = Err E_UNEXPECTED_EOF /\
  xz_decode_c xz_fixed true ([253; 55; 122; 88; 90; 0; 0; 1; 105; 34; 222; 54] ++ rnd) = Err E_UNEXPECTED_EOF /\
  bytes_ok w_huge_index = true /\ xz_decode_c xz_fixed false w_huge_index = Err E_INVALID_DATA.
Proof. vm_compute. repeat split; reflexivity. Qed.

Example C06_containers_instance :
  total (lz_decode_c lz_fixed ([76; 90; 73; 80; 1; 12] ++ ones ++ rnd)) /\
  total (xz_decode_c xz_fixed true ([253; 55; 122; 88; 90; 0; 0; 1; 105; 34; 222; 54] ++ rnd)) /\
  shrk 0 (ones ++ rnd) (lzip_payload_dec 4096 (ones ++ rnd)) /\
  shrkb (1 :: 0 :: 1 :: 7 :: 8 :: rnd) (lzma2_payload_dec 4096 (1 :: 0 :: 1 :: 7 :: 8 :: rnd)).
Proof.
  split; [apply C06_lzip_decode_c_total|]. split; [apply C06_xz_decode_c_total; reflexivity|].
  split; [apply C06_lzip_payload_dec_shr | apply C06_lzma2_payload_dec_shrb; reflexivity].
Qed.
