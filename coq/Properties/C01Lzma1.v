(* Properties/C01Lzma1.v — C01 for LZMAWriter / LZMAReader (.lzma header, raw stream with end marker
   or declared size, preset dictionary), for EVERY sequence of destination buffer sizes.
   Only theorem statements.  The reader-level lifting (Lzma1LoopProofs.v, Lzma1ReadProofs.v) sits on
   the codec theorems of C01.v. *)
From LzVerif Require Import Base.Bytes Codec.Store Codec.Range Codec.LzWindow Codec.LzmaDec Codec.LzmaEnc
  Codec.LzmaWriters Codec.Lzma1 Codec.RangeEncProofs Codec.RangeProofs Codec.LzmaRoundtrip
  Codec.Lzma1LoopProofs Codec.Lzma1ReadProofs.

(* Whatever symbol sequence the validator accepts for the data, with or without end marker: the
   reader returns exactly the data for every history of positive buffer sizes and leaves exactly
   [tail] unread (C16).  The bound on coded decisions excludes the encoder's u32 pending-byte
   counter overflow (4 GiB of 0xFF bytes). *)
Theorem C01_lzma1_roundtrip_raw : forall lc lp pb dict data syms use_end_marker stream tail sizes,
  0 <= lc <= 8 -> 0 <= lp <= 4 -> 0 <= pb <= 4 -> 4096 <= dict <= 2147483648 ->
  bytes_ok data = true -> no_end syms ->
  lzma1_write lc lp pb dict [] data syms false use_end_marker None = Ok stream ->
  (forall E c' h', enc_syms (coder_new lc lp pb) (ehist_new dict [] data) (syms ++ end_syms use_end_marker) = Ok (E, c', h') ->
     events_bits E <= RC_MAX_BITS) ->
  Forall (fun z => 0 < z) sizes ->
  let uncomp := if use_end_marker then U64_MAX else zlen data in
  exists s0, lzma1_construct2 (stream ++ tail) uncomp lc lp pb dict None = Ok s0 /\
    forall fuel, zlen data + 2 <= Z.of_nat fuel ->
    exists s_end, lzma1_read_all fuel s0 sizes sizes [] = Ok (data, s_end) /\ lzma1_unconsumed s_end = tail.
Proof. exact lzma1_roundtrip_raw. Qed.
Print Assumptions C01_lzma1_roundtrip_raw.

(* zero-length reads never disturb the stream (C07) *)
Theorem C01_lzma1_read_zero : forall s buflen, buflen <= 0 -> lzma1_read s buflen = Ok ([], s).
Proof. exact Lzma1ReadProofs.lzma1_read_zero. Qed.
Print Assumptions C01_lzma1_read_zero.

(* with a preset dictionary.  [preset_hyps]: the preset fits the dictionary or the dictionary size
   is a multiple of 16 (otherwise encoder and decoder keep differently long suffixes of the
   preset: consistent but not expressible in the history relation used by the proof), and - for a
   declared size - the window is not shrunk below what preset and data need (after /repo fix
   ef8562d the reader never shrinks it when a preset is given; the hypothesis is kept as proved) *)
Theorem C01_lzma1_roundtrip_preset : forall lc lp pb dict preset data syms use_end_marker stream tail sizes,
  0 <= lc <= 8 -> 0 <= lp <= 4 -> 0 <= pb <= 4 -> 4096 <= dict <= 2147483648 ->
  bytes_ok preset = true -> bytes_ok data = true -> no_end syms ->
  preset_hyps dict preset data use_end_marker ->
  lzma1_write lc lp pb dict preset data syms false use_end_marker None = Ok stream ->
  (forall E c' h', enc_syms (coder_new lc lp pb) (ehist_new dict preset data) (syms ++ end_syms use_end_marker) = Ok (E, c', h') ->
     events_bits E <= RC_MAX_BITS) ->
  Forall (fun z => 0 < z) sizes ->
  let uncomp := if use_end_marker then U64_MAX else zlen data in
  exists s0, lzma1_construct2 (stream ++ tail) uncomp lc lp pb dict (Some preset) = Ok s0 /\
    forall fuel, zlen data + 2 <= Z.of_nat fuel ->
    exists s_end, lzma1_read_all fuel s0 sizes sizes [] = Ok (data, s_end) /\ lzma1_unconsumed s_end = tail.
Proof. exact lzma1_roundtrip_preset. Qed.
Print Assumptions C01_lzma1_roundtrip_preset.

(* the .lzma file format: 13-byte header (properties, dictionary size, size or -1), memory limit *)
Theorem C01_lzma1_roundtrip_header : forall lc lp pb dict popt data syms use_end_marker stream tail sizes mem_limit_kb need,
  0 <= lc <= 8 -> 0 <= lp <= 4 -> 0 <= pb <= 4 -> 4096 <= dict <= 2147483648 ->
  let preset := preset_list popt in
  bytes_ok preset = true -> bytes_ok data = true -> no_end syms ->
  preset_hyps dict preset data use_end_marker ->
  lzma1_write lc lp pb dict preset data syms true use_end_marker
              (if use_end_marker then None else Some (zlen data)) = Ok stream ->
  (forall E c' h', enc_syms (coder_new lc lp pb) (ehist_new dict preset data) (syms ++ end_syms use_end_marker) = Ok (E, c', h') ->
     events_bits E <= RC_MAX_BITS) ->
  Forall (fun z => 0 < z) sizes ->
  lzma1_memory_usage dict lc lp = Ok need -> need <= mem_limit_kb ->
  exists s0, lzma1_new_mem_limit (stream ++ tail) mem_limit_kb popt = Ok s0 /\
    forall fuel, zlen data + 2 <= Z.of_nat fuel ->
    exists s_end, lzma1_read_all fuel s0 sizes sizes [] = Ok (data, s_end) /\ lzma1_unconsumed s_end = tail.
Proof. exact lzma1_roundtrip_header. Qed.
Print Assumptions C01_lzma1_roundtrip_header.

(* non-vacuity *)
Example C01_lzma1_roundtrip_raw_hyps_example : True.
Proof. pose proof lzma1_roundtrip_raw_hyps. exact I. Qed.
