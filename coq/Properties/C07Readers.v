(* Properties/C07Readers.v — C07, reader half: what a reader returns does not depend on how the
   caller sizes its destination buffers, and a zero-length read changes nothing.
   Only theorem statements, closed by [exact] of lemmas proved in Codec/LzmaReadProofs.v,
   Codec/Lzma1ReadProofs.v, Codec/Lzma2ReadProofs.v, Filter/BcjAllProofs.v, Filter/DeltaProofs.v,
   Format/XzReaderProofs.v, Format/ContainerRefutations.v.

   Shape of the "any sizes" theorems: the history of destination sizes [sizes] (cycled; every
   positive size allowed, 1 included) is universally quantified and does not occur in the result:
   the bytes returned are the data, the source is left at the end of the stream.  Zero-length
   reads are covered by the *_zero_read theorems (state unchanged, so they can be inserted anywhere
   in a history).  For LZMAReader / LZMA2Reader the streams are those the writer models produce
   (for arbitrary, e.g. damaged, input the readers' results may well depend on the buffer sizes
   through the point at which an error is detected - that is C06 / C04's subject). *)
From LzVerif Require Import Base.Bytes Codec.Store Codec.Range Codec.LzWindow Codec.LzmaDec Codec.LzmaEnc
  Codec.LzmaWriters Codec.Lzma1 Codec.RangeEncProofs Codec.RangeProofs Codec.LzmaRoundtrip Codec.LzmaReadProofs
  Codec.Lzma1LoopProofs Codec.Lzma1ReadProofs
  Codec.Lzma2Dec Codec.Lzma2SpecProofs Codec.Lzma2FrameSyncProofs Codec.Lzma2ReadProofs
  Filter.Delta Filter.DeltaProofs Filter.Bcj Filter.BcjStream Filter.BcjStreamProofs Filter.BcjAllProofs
  Format.XzFormat Format.LzipFormat Format.ContainerRefutations Format.XzReaderProofs.

(* ---- zero-length reads ------------------------------------------------------------------------- *)
Theorem C07_lzma1_zero_read : forall s buflen, buflen <= 0 -> lzma1_read s buflen = Ok ([], s).
Proof. exact lzma1_read_zero. Qed.
Print Assumptions C07_lzma1_zero_read.

Theorem C07_lzma2_zero_read : forall s n, n <= 0 -> lzma2_read s n = Ok ([], s).
Proof. exact lzma2_read_zero. Qed.
Print Assumptions C07_lzma2_zero_read.

Theorem C07_bcj_reader_zero_read : forall fuel a st inner, bcj_read fuel a st inner 0 = Ok ([], None, st, inner).
Proof. exact bcj_reader_zero_read. Qed.
Print Assumptions C07_bcj_reader_zero_read.

Theorem C07_xz_reader_zero_read : forall s n, n <= 0 -> xzr_read xz_fixed s n = Ok ([], s).
Proof. exact xzr_read_zero. Qed.
Print Assumptions C07_xz_reader_zero_read.

Theorem C07_lzip_reader_zero_read : forall fx s n, n <= 0 -> lzr_read fx s n = Ok ([], s).
Proof. exact lzr_read_zero. Qed.
Print Assumptions C07_lzip_reader_zero_read.

(* F13: false for XZReader before the fix - an empty destination in the middle of a block made the
   reader take the block for finished and fail the check (4 bytes, empty read, 4 bytes) *)
Theorem C07_xz_reader_zero_read_refuted :
  read_history xz_orig w_hello [4; 0; 4] = Ok ([104; 101; 108; 108], E_INVALID_DATA) /\
  read_history xz_fixed w_hello [4; 0; 4] = Ok (w_content, 0).
Proof. exact (conj xz_empty_buffer_refuted xz_empty_buffer_fixed). Qed.
Print Assumptions C07_xz_reader_zero_read_refuted.

(* ---- any history of destination sizes ---------------------------------------------------------- *)

(* LZMAReader on a raw stream (end marker, or declared size) *)
Theorem C07_lzma1_reader_any_sizes : forall lc lp pb dict data syms use_end_marker stream tail sizes,
  0 <= lc <= 8 -> 0 <= lp <= 4 -> 0 <= pb <= 4 -> 4096 <= dict <= 2147483648 ->
  bytes_ok data = true -> no_end syms ->
  lzma1_write lc lp pb dict [] data syms false use_end_marker None = Ok stream ->
  (forall E c' h', enc_syms (coder_new lc lp pb) (ehist_new dict [] data) (syms ++ end_syms use_end_marker) = Ok (E, c', h') ->
     events_bits E <= RC_MAX_BITS) ->
  Forall (fun z => 0 < z) sizes ->
  let uncomp := if use_end_marker then U64_MAX else zlen data in
  exists s0, lzma1_construct2 (stream ++ tail) uncomp lc lp pb dict None = Ok s0 /\
    forall fuel, zlen data + 2 <= Z.of_nat fuel ->
    exists s_end, lzma1_read_all fuel s0 sizes sizes [] = Ok (data, s_end) /\ lzma1_unconsumed s_end = tail.
Proof. exact lzma1_roundtrip_raw. Qed.
Print Assumptions C07_lzma1_reader_any_sizes.

(* LZMA2Reader *)
Theorem C07_lzma2_reader_any_sizes : forall lc lp pb dict data evs stream tail sizes,
  0 <= lc -> 0 <= lp -> lc + lp <= 4 -> 0 <= pb <= 4 -> dict <= 2147483648 ->
  bytes_ok data = true ->
  l2_no_end evs ->
  lzma2_write lc lp pb dict None data evs = Ok stream ->
  Forall (fun z => 0 < z) sizes ->
  exists s0, lzma2_new (stream ++ tail) dict None = Ok s0 /\
    forall fuel, (length data + 2 <= fuel)%nat ->
    exists s_end, lzma2_read_all fuel s0 sizes sizes [] = Ok (data, 0, s_end) /\ m_in s_end = tail.
Proof. exact lzma2_roundtrip. Qed.
Print Assumptions C07_lzma2_reader_any_sizes.

(* BCJReader, all eight architectures, ANY chunking of the inner reader's data and ANY history of
   destination sizes, zeros included: the first (sum of sizes) bytes of the filtered stream *)
Theorem C07_bcj_reader_any_sizes : forall a start parts sizes,
  bytes_ok (concat parts) = true -> Forall (fun n => 0 <= n) sizes ->
  exists F rs' inner',
    bcj_stream a false start (concat parts) = Ok F /\
    bcj_read_calls (bcj_read_fuel (data_script parts)) a (bcj_reader_new a start) (data_script parts) sizes =
      Ok (firstn (Z.to_nat (fold_right Z.add 0 sizes)) F, [], rs', inner').
Proof. exact bcj_reader_any_sizes. Qed.
Print Assumptions C07_bcj_reader_any_sizes.

(* DeltaReader: whatever slices the read() calls obtain (empty ones included), the bytes delivered
   are the decoding of the concatenation *)
Theorem C07_delta_reader_any_chunking : forall d parts,
  delta_read_calls d parts = delta_decode d (concat parts).
Proof. exact delta_read_partition. Qed.
Print Assumptions C07_delta_reader_any_chunking.
