(* Properties/C07Readers.v — C07, reader half: what a reader returns does not depend on how the
   caller sizes its destination buffers, and a zero-length read changes nothing.
   Only theorem statements, closed by [exact] of lemmas proved in Codec/LzmaReadProofs.v,
   Codec/Lzma1ReadProofs.v, Codec/Lzma2ReadProofs.v, Filter/BcjAllProofs.v, Filter/DeltaProofs.v,
   Format/XzReaderProofs.v, Format/ContainerRefutations.v.

   Shape of the "any sizes" theorems: the history of destination sizes [sizes] (cycled; every
   positive size allowed, 1 included) is universally quantified and does not occur in the result:
   the bytes returned are the data, the source is left at the end of the stream.  Zero-length
   reads are covered by the *_zero_read theorems (state unchanged, so they can be inserted anywhere
   in a history).  XZReader: C07_xz_reader_any_sizes is about the call-by-call model xzr_read (the
   one the correspondence check drives); C07_xz_reader_matches_whole_file turns the run-checked
   agreement between that model and the whole-file function xz_decode_c (the function of the C02 /
   C12 / C16 theorems) into a theorem, for the files the writer produces with LZMA2 payloads and
   Delta pre-filters or none; C07_lzip_reader_* do the same for the call-by-call LZIPReader model
   lzr_read.  NOT proved: the same for XZ files with BCJ filters (outside the executable reader
   model), for several concatenated XZ streams read call by call, for damaged files.  For LZMAReader / LZMA2Reader the streams are those the writer models produce
   (for arbitrary, e.g. damaged, input the readers' results may well depend on the buffer sizes
   through the point at which an error is detected - that is C06 / C04's subject). *)
From LzVerif Require Import Base.Bytes Codec.Store Codec.Range Codec.LzWindow Codec.LzmaDec Codec.LzmaEnc
  Codec.LzmaWriters Codec.Lzma1 Codec.RangeEncProofs Codec.RangeProofs Codec.LzmaRoundtrip Codec.LzmaReadProofs
  Codec.Lzma1LoopProofs Codec.Lzma1ReadProofs
  Codec.Lzma2Dec Codec.Lzma2SpecProofs Codec.Lzma2FrameSyncProofs Codec.Lzma2ReadProofs
  Filter.Delta Filter.DeltaProofs Filter.Bcj Filter.BcjStream Filter.BcjStreamProofs Filter.BcjAllProofs
  Format.XzFormat Format.LzipFormat Format.XzProofs Format.ContainerRefutations Format.ComposeProofs
  Format.LzipProofs Format.ComposeExamplesProofs Format.XzReaderProofs Format.LzipReaderProofs.

(* ---- zero-length reads ------------------------------------------------------------------------- *)
Theorem C07_lzma1_zero_read : forall s buflen, buflen <= 0 -> lzma1_read s buflen = Ok ([], s).
Proof. exact lzma1_read_zero. Qed.
Print Assumptions C07_lzma1_zero_read.

Theorem C07_lzma2_zero_read : forall s n, n <= 0 -> lzma2_read s n = Ok ([], s).
Proof. exact lzma2_read_zero. Qed.
Print Assumptions C07_lzma2_zero_read.

Theorem C07_bcj_reader_zero_read : forall fuel a st inner, bcj_read fuel a st inner 0 = Ok ([], None, st, inner).
Proof. exact bcj_reader_zero_read. Qed.
Print Assumptions C07_bcj_reader_zero_read.

Theorem C07_xz_reader_zero_read : forall s n, n <= 0 -> xzr_read xz_fixed s n = Ok ([], s).
Proof. exact xzr_read_zero. Qed.
Print Assumptions C07_xz_reader_zero_read.

Theorem C07_lzip_reader_zero_read : forall fx s n, n <= 0 -> lzr_read fx s n = Ok ([], s).
Proof. exact lzr_read_zero. Qed.
Print Assumptions C07_lzip_reader_zero_read.

(* F13: false for XZReader before the fix - an empty destination in the middle of a block made the
   reader take the block for finished and fail the check (4 bytes, empty read, 4 bytes) *)
Theorem C07_xz_reader_zero_read_refuted :
  read_history xz_orig w_hello [4; 0; 4] = Ok ([104; 101; 108; 108], E_INVALID_DATA) /\
  read_history xz_fixed w_hello [4; 0; 4] = Ok (w_content, 0).
Proof. exact (conj xz_empty_buffer_refuted xz_empty_buffer_fixed). Qed.
Print Assumptions C07_xz_reader_zero_read_refuted.

(* ---- any history of destination sizes ---------------------------------------------------------- *)

(* LZMAReader on a raw stream (end marker, or declared size) *)
Theorem C07_lzma1_reader_any_sizes : forall lc lp pb dict data syms use_end_marker stream tail sizes,
  0 <= lc <= 8 -> 0 <= lp <= 4 -> 0 <= pb <= 4 -> 4096 <= dict <= 2147483648 ->
  bytes_ok data = true -> no_end syms ->
  lzma1_write lc lp pb dict [] data syms false use_end_marker None = Ok stream ->
  (forall E c' h', enc_syms (coder_new lc lp pb) (ehist_new dict [] data) (syms ++ end_syms use_end_marker) = Ok (E, c', h') ->
     events_bits E <= RC_MAX_BITS) ->
  Forall (fun z => 0 < z) sizes ->
  let uncomp := if use_end_marker then U64_MAX else zlen data in
  exists s0, lzma1_construct2 (stream ++ tail) uncomp lc lp pb dict None = Ok s0 /\
    forall fuel, zlen data + 2 <= Z.of_nat fuel ->
    exists s_end, lzma1_read_all fuel s0 sizes sizes [] = Ok (data, s_end) /\ lzma1_unconsumed s_end = tail.
Proof. exact lzma1_roundtrip_raw. Qed.
Print Assumptions C07_lzma1_reader_any_sizes.

(* LZMA2Reader *)
Theorem C07_lzma2_reader_any_sizes : forall lc lp pb dict data evs stream tail sizes,
  0 <= lc -> 0 <= lp -> lc + lp <= 4 -> 0 <= pb <= 4 -> dict <= 2147483648 ->
  bytes_ok data = true ->
  l2_no_end evs ->
  lzma2_write lc lp pb dict None data evs = Ok stream ->
  Forall (fun z => 0 < z) sizes ->
  exists s0, lzma2_new (stream ++ tail) dict None = Ok s0 /\
    forall fuel, (length data + 2 <= fuel)%nat ->
    exists s_end, lzma2_read_all fuel s0 sizes sizes [] = Ok (data, 0, s_end) /\ m_in s_end = tail.
Proof. exact lzma2_roundtrip. Qed.
Print Assumptions C07_lzma2_reader_any_sizes.

(* BCJReader, all eight architectures, ANY chunking of the inner reader's data and ANY history of
   destination sizes, zeros included: the first (sum of sizes) bytes of the filtered stream *)
Theorem C07_bcj_reader_any_sizes : forall a start parts sizes,
  bytes_ok (concat parts) = true -> Forall (fun n => 0 <= n) sizes ->
  exists F rs' inner',
    bcj_stream a false start (concat parts) = Ok F /\
    bcj_read_calls (bcj_read_fuel (data_script parts)) a (bcj_reader_new a start) (data_script parts) sizes =
      Ok (firstn (Z.to_nat (fold_right Z.add 0 sizes)) F, [], rs', inner').
Proof. exact bcj_reader_any_sizes. Qed.
Print Assumptions C07_bcj_reader_any_sizes.

(* DeltaReader: whatever slices the read() calls obtain (empty ones included), the bytes delivered
   are the decoding of the concatenation *)
Theorem C07_delta_reader_any_chunking : forall d parts,
  delta_read_calls d parts = delta_decode d (concat parts).
Proof. exact delta_read_partition. Qed.
Print Assumptions C07_delta_reader_any_chunking.

(* XZReader::read, call by call, on a file the writer produced (LZMA2 payloads of any encoder [ch],
   Delta pre-filters or none, any check type / block size / partition into write() calls), under
   EVERY history of positive destination sizes: the bytes written, then end of stream, and the
   source is left exactly behind the stream footer ([rest] arbitrary with single-stream decoding;
   nothing may follow when multi-stream decoding is on). *)
Theorem C07_xz_reader_any_sizes :
  forall lc lp pb ch, l2_params_ok lc lp pb -> l2_codec_ok lc lp pb ch ->
  forall o0 parts f rest multi sizes, stream_ok o0 -> only_delta (xo_filters o0) ->
    4096 <= xo_dict o0 <= 2147483648 -> bytes_ok (concat parts) = true ->
    xz_encode (l2_penc lc lp pb ch) delta_fenc xz_fixed o0 parts = Ok f ->
    (multi = true -> rest = []) -> Forall (fun z => 0 < z) sizes ->
    forall fuel, (length (concat parts) + 2 <= fuel)%nat ->
    exists st, xzr_read_all fuel xz_fixed (xzr_new (f ++ rest) multi) sizes sizes [] = Ok (concat parts, 0, st) /\
               xzr_unconsumed st = rest.
Proof. exact xzr_read_all_rt. Qed.
Print Assumptions C07_xz_reader_any_sizes.

(* the call-by-call model returns what the whole-file function xz_decode_c returns *)
Theorem C07_xz_reader_matches_whole_file :
  forall lc lp pb ch, l2_params_ok lc lp pb -> l2_codec_ok lc lp pb ch ->
  forall o0 parts f multi sizes, stream_ok o0 -> only_delta (xo_filters o0) ->
    4096 <= xo_dict o0 <= 2147483648 -> bytes_ok (concat parts) = true ->
    xz_encode (l2_penc lc lp pb ch) delta_fenc xz_fixed o0 parts = Ok f ->
    Forall (fun z => 0 < z) sizes ->
    forall fuel, (length (concat parts) + 2 <= fuel)%nat ->
    exists content left st,
      xz_decode_c xz_fixed multi f = Ok (content, left) /\
      xzr_read_all fuel xz_fixed (xzr_new f multi) sizes sizes [] = Ok (content, 0, st) /\
      xzr_unconsumed st = left.
Proof. exact xzr_read_all_is_decode. Qed.
Print Assumptions C07_xz_reader_matches_whole_file.

(* non-vacuity: the hypotheses on concrete options and data (Format/ComposeExamplesProofs.v), and
   the history 3, 1, 3, 1, ... evaluated on the two-block file with two Delta filters *)
Example C07_xz_reader_hyps :
  l2_params_ok 3 0 2 /\ l2_codec_ok 3 0 2 ch_ex /\
  stream_ok x_opts /\ only_delta (xo_filters x_opts) /\ 4096 <= xo_dict x_opts <= 2147483648 /\
  bytes_ok (concat x_parts) = true /\
  exists f, xz_encode (l2_penc 3 0 2 ch_ex) delta_fenc xz_fixed x_opts x_parts = Ok f.
Proof.
  split; [exact params_302|]. split; [exact ch_ex_ok|].
  destruct x_opts_ok as (H1 & H2 & H3 & H4). destruct x_roundtrip as (f & Hf & _).
  split; [exact H1|]. split; [exact H2|]. split; [exact H3|]. split; [exact H4|]. exists f. exact Hf.
Qed.
Example C07_xz_reader_instance :
  match xz_encode (l2_penc 3 0 2 ch_ex) delta_fenc xz_fixed x_opts x_parts with
  | Ok f => match xzr_read_all 20 xz_fixed (xzr_new (f ++ [9; 9]) false) [3; 1] [3; 1] [] with
            | Ok (out, st, s) => out = x_data /\ st = 0 /\ xzr_unconsumed s = [9; 9]
            | _ => False
            end
  | _ => False
  end.
Proof. vm_compute. repeat split; reflexivity. Qed.

(* LZIPReader::read, call by call, on any sequence of members with LZMA payloads ([mgood]: header
   byte announcing at least the dictionary in use, content bytes, the encoder's choices accepted by
   the writer model with at most 2^32-7 coded bits); members after the first non-empty (what the
   writer produces: C07_lzip_reader_written_file).  Every history of positive sizes: the
   concatenated contents, then end of stream, everything consumed. *)
Theorem C07_lzip_reader_any_sizes :
  forall (ch : Z -> list Z -> list sym) (m : lzm) (ms : list lzm) sizes fuel,
    Forall (mgood ch) (m :: ms) -> Forall nonempty_m ms -> Forall (fun z => 0 < z) sizes ->
    (length (lm_data (m :: ms)) + 2 <= fuel)%nat ->
    exists st, lzr_read_all fuel lz_fixed (lzr_new (lm_file (l1_penc ch) (m :: ms))) sizes sizes [] = Ok (lm_data (m :: ms), 0, st) /\
               lzr_unconsumed st = [].
Proof. exact lzr_read_all_rt. Qed.
Print Assumptions C07_lzip_reader_any_sizes.

Theorem C07_lzip_reader_matches_whole_file :
  forall ch calls m ms sizes fuel,
    Forall (lm_ok_l1 ch calls) (m :: ms) -> Forall nonempty_m ms -> Forall (fun z => 0 < z) sizes ->
    (length (lm_data (m :: ms)) + 2 <= fuel)%nat ->
    exists content left st,
      lz_decode (lzip_payload_dec_n calls) lz_fixed (lm_file (l1_penc ch) (m :: ms)) = Ok (content, left) /\
      lzr_read_all fuel lz_fixed (lzr_new (lm_file (l1_penc ch) (m :: ms))) sizes sizes [] = Ok (content, 0, st) /\
      lzr_unconsumed st = left.
Proof. exact lzr_read_all_is_decode. Qed.
Print Assumptions C07_lzip_reader_matches_whole_file.

(* on the file LZIPWriter returns, for every dictionary size, member size and write partition *)
Theorem C07_lzip_reader_written_file :
  forall ch o0 parts f sizes fuel,
    bytes_ok (concat parts) = true ->
    (forall members, lz_members_of (lo_member_size (lzw_new o0)) parts = Ok members ->
       lz_sizes_ok (l1_penc ch) (lo_dict (lzw_new o0)) members /\
       Forall (l1_member_ok ch (lo_dict (lzw_new o0))) members) ->
    match lo_member_size o0 with Some m => 1 <= m | None => True end ->
    lz_encode (l1_penc ch) o0 parts = Ok f ->
    Forall (fun z => 0 < z) sizes -> (length (concat parts) + 2 <= fuel)%nat ->
    exists st, lzr_read_all fuel lz_fixed (lzr_new f) sizes sizes [] = Ok (concat parts, 0, st) /\ lzr_unconsumed st = [].
Proof. exact lzr_read_all_written. Qed.
Print Assumptions C07_lzip_reader_written_file.

(* non-vacuity: the LZIP hypotheses on a concrete member (C02_lzip_lzma1_hyps in C02Compose.v), and
   the history 2, 5, 2, 5, ... evaluated on the file written twice *)
Example C07_lzip_reader_instance :
  match lz_encode (l1_penc ch1_ex) z_opts z_parts with
  | Ok f => match lzr_read_all 20 lz_fixed (lzr_new (f ++ f)) [2; 5] [2; 5] [] with
            | Ok (out, st, s) => out = z_data ++ z_data /\ st = 0 /\ lzr_unconsumed s = []
            | _ => False
            end
  | _ => False
  end.
Proof. vm_compute. repeat split; reflexivity. Qed.
