(* Properties/C06Mt.v — C06 for the member scan of the multi-threaded LZIP reader
   (LZIPReaderMT::scan_members, run inside LZIPReaderMT::new on the untrusted file): for every
   byte string it returns a member table or an error, within length+1 iterations - no hang, no
   unbounded growth of the member table (at most one entry per iteration). *)
From LzVerif Require Import Base.Bytes Mt.Units Mt.ScanTotalProofs.

Theorem C06_lzip_scan_total : forall file, bytes_ok file = true ->
  match scan_members file with Ok _ | Err _ => True | Panic _ | Fuel => False end.
Proof. exact scan_members_total. Qed.
Print Assumptions C06_lzip_scan_total.

(* a hostile file: the first member's trailer declares member_size = 0 *)
Example C06_lzip_scan_zero_member_size :
  let m2 := [76;90;73;80;1;12; 7;7;7] ++ repeatn 0 12 ++ [29;0;0;0;0;0;0;0] in
  let m1 := [76;90;73;80;1;12] ++ repeatn 0 12 ++ [0;0;0;0;0;0;0;0] in
  scan_members (m1 ++ m2) = Err E_INVALID_DATA.
Proof. vm_compute. reflexivity. Qed.
