(* Properties/C03In.v — C03_in for the XZ container: every byte string the independent .xz format
   specification (Format/XzSpec.v, strict mode: only the check types None/CRC32/CRC64/SHA-256)
   accepts is decoded by the crate's reader (model of the repaired code, [xz_fixed]) to exactly the
   content the specification assigns to it - optional size fields in Block Headers, any number of
   Blocks with different filter chains, Delta and BCJ filter flags, dictionary properties 0-40, all
   four checks, Index, Stream Footer, Stream Padding, concatenated Streams.
   Only theorem statements, each closed by [exact] of a lemma proved in Format/XzSpecIn*Proofs.v. *)
From LzVerif Require Import Base.Bytes Format.XzFormat Format.XzSpec Format.XzSpecExec Format.XzSpecProofs
  Format.XzSpecIn3Proofs Format.XzSpecIn4Proofs Format.ContainerRefutations.

(* C03_in (XZ), multi-stream decoding (XZReader::new(_, true)).  [sdec] is the specification's
   decoding of a Block's Compressed Data through its filter chain, [blockdec] the crate's.
   Hypotheses: the crate's chain decoder decodes what the specification's does ([spec_filter] is the
   specification's view of a parsed filter: Delta distance, BCJ id + start offset, LZMA2 dictionary
   size), and the specification's decoder only consumes input (weaker than "its rest is a suffix of
   its source", the form used for LZIP; that form is C03_in_xz_thm in Format/XzSpecIn3Proofs.v).
   Side condition: the file is a string of bytes (0..255). *)
Theorem C03_in_xz :
  forall (sdec : list sfilter -> list Z -> option (list Z * list Z))
         (blockdec : list (fkind * Z) -> list Z -> outcome (list Z * list Z)),
  (forall fs src r, sdec (map spec_filter fs) src = Some r -> blockdec fs src = Ok r) ->
  (forall fs src x r, bytes_ok src = true -> sdec fs src = Some (x, r) -> zlen r <= zlen src /\ bytes_ok r = true) ->
  forall f d, bytes_ok f = true ->
    xz_spec_decode sdec false f = Some d ->
    xz_decode xz_check_bytes blockdec xz_fixed true f = Ok (d, []).
Proof. exact C03_in_xz_gen. Qed.
Print Assumptions C03_in_xz.

(* single-stream decoding (XZReader::new(_, false)): the content of the first Stream, and the source
   is left exactly behind its Stream Footer *)
Theorem C03_in_xz_single :
  forall (sdec : list sfilter -> list Z -> option (list Z * list Z))
         (blockdec : list (fkind * Z) -> list Z -> outcome (list Z * list Z)),
  (forall fs src r, sdec (map spec_filter fs) src = Some r -> blockdec fs src = Ok r) ->
  (forall fs src x r, bytes_ok src = true -> sdec fs src = Some (x, r) -> zlen r <= zlen src /\ bytes_ok r = true) ->
  forall f d r, bytes_ok f = true ->
    xz_spec_decode_first sdec false f = Some (d, r) ->
    xz_decode xz_check_bytes blockdec xz_fixed false f = Ok (d, r).
Proof. exact C03_in_xz_first_gen. Qed.
Print Assumptions C03_in_xz_single.

(* The closed instance: executable specification against executable reader model (LZMA2 payloads
   by the LZMA2Reader model on both sides, Delta filters executed; a chain with a BCJ filter is not
   accepted by the executable specification - extension point - so this instance is silent on it). *)
Theorem C03_in_xz_exec :
  forall f d, bytes_ok f = true ->
    xz_spec_decode_c false f = Some d -> xz_decode_c xz_fixed true f = Ok (d, []).
Proof. exact C03_in_xz_exec_thm. Qed.
Print Assumptions C03_in_xz_exec.

Theorem C03_in_xz_exec_single :
  forall f d r, bytes_ok f = true ->
    xz_spec_decode_first xz_sdec_exec false f = Some (d, r) -> xz_decode_c xz_fixed false f = Ok (d, r).
Proof. exact C03_in_xz_first_exec_thm. Qed.
Print Assumptions C03_in_xz_exec_single.

(* Non-vacuity.  The two hypotheses of C03_in_xz hold for the executable pair; [c03in_file] is a
   152-byte valid file no writer of the crate produces: Stream 1 = Block A with Compressed Size and
   Uncompressed Size fields in its header + Block B with a Delta(1)+LZMA2 chain, CRC32 checks,
   four bytes of Stream Padding, Stream 2 = the "hello world" file.  The specification accepts it,
   and (evaluated, not only by the theorem) the reader model returns the same content. *)
Example C03_in_xz_instance :
  (forall fs src r, xz_sdec_exec (map spec_filter fs) src = Some r -> xz_blockdec fs src = Ok r) /\
  (forall fs src x r, bytes_ok src = true -> xz_sdec_exec fs src = Some (x, r) -> zlen r <= zlen src /\ bytes_ok r = true) /\
  bytes_ok c03in_file = true /\
  xz_spec_decode_c false c03in_file = Some ([1; 2; 3; 4; 9] ++ w_content) /\
  xz_spec_decode_first xz_sdec_exec false c03in_file = Some ([1; 2; 3; 4; 9], [0; 0; 0; 0] ++ w_hello) /\
  xz_decode_c xz_fixed true c03in_file = Ok ([1; 2; 3; 4; 9] ++ w_content, []) /\
  xz_decode_c xz_fixed false c03in_file = Ok ([1; 2; 3; 4; 9], [0; 0; 0; 0] ++ w_hello).
Proof.
  split; [exact xz_sdec_exec_blockdec|]. split; [exact xz_sdec_exec_shrinks|].
  vm_compute. repeat split; reflexivity.
Qed.

(* the Block Header lockstep is not vacuous for BCJ: a header with an x86 filter (start offset 16)
   before LZMA2 is accepted by the specification and parsed by the crate to the same chain *)
Example C03_in_xz_bcj_header :
  s_block_header (c03in_hdr_bcj ++ [7]) = Some (mkSblockhdr 16 None None [SBcj 4 16; SLzma2 4096], [7]) /\
  xz_parse_block_header (c03in_hdr_bcj ++ [7]) = Ok (Some (mkBhdr None None [(FX86, 16); (FLZMA2, 4096)]), [7]) /\
  map spec_filter [(FX86, 16); (FLZMA2, 4096)] = [SBcj 4 16; SLzma2 4096].
Proof. exact c03in_hdr_bcj_valid. Qed.
