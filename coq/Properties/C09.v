(* Properties/C09.v — multi-threaded I/O always terminates and reports worker failures.
   Only theorem statements, each closed by [exact] of a lemma proved in Mt/*Proofs.v.

   Positive theorems: for the REPAIRED protocol ([Fx c]: close() under the queue mutex, wake-up on
   the worker error path, empty-input guard, finish() guard — repo-patches 10..13), for all worker
   counts, unit functions, source scripts, caller programs and schedules.
   Refutations: for the PINNED code ([orig_cfg]), concrete schedules.

   FULL STATEMENT of the property, for reference: "every call returns after finitely many steps
   under every schedule and for every input; if a worker fails, the source fails or the input ends
   without its terminator, the caller receives an error; success is never reported with part of
   the data missing".  It is the conjunction of C09_mt_no_deadlock (some thread can always move
   while a call is unfinished), C09_mt_measure / C09_mt_terminates (every schedule is finite) and
   C09_mt_complete (the success value is only returned with all units returned, all successful).
   Claimed PARTIAL: termination is "no infinite schedule of the model" (OS-level starvation of a
   runnable thread is outside), the memory model is sequential consistency over the modelled
   operations, panics of the unit function are not modelled. *)
From LzVerif Require Import Base.Bytes Mt.Protocol Mt.ProtocolLemmas Mt.LiveInv Mt.LivenessProofs Mt.MeasureProofs
  Mt.Refuted.
Local Open Scope nat_scope.

(* No reachable state in which the caller has a call in progress (or an operation still to do) is
   stuck: some thread has an enabled step. *)
Theorem C09_mt_no_deadlock : forall (R : Type) (f : nat -> R + Z) c src p (s : state R),
  Fx c -> reachable f c src p s -> busy s = true -> stuck f c s = false.
Proof. exact @mt_no_deadlock. Qed.
Print Assumptions C09_mt_no_deadlock.

(* Every step of every thread strictly decreases the measure ... *)
Theorem C09_mt_measure : forall (R : Type) (f : nat -> R + Z) c src p (s : state R) t s',
  Fx c -> reachable f c src p s -> step f c s t = Some s' -> measure c s' < measure c s.
Proof. exact @mt_measure. Qed.
Print Assumptions C09_mt_measure.

(* ... so every schedule is finite, with an explicit bound. *)
Theorem C09_mt_terminates : forall (R : Type) (f : nat -> R + Z) c src p (s : state R) sched s',
  Fx c -> reachable f c src p s -> run_strict f c s sched = Some s' ->
  length sched + measure c s' <= measure c s.
Proof. exact @mt_terminates. Qed.
Print Assumptions C09_mt_terminates.

(* mt_error_reported: whenever a call returns the success-end value (reader: Ok(None); writer:
   finish() = Ok), every dispatched unit has been handed out, in order, and every one of them was
   a success of the unit function.  Hence if any dispatched unit fails (corrupt unit, unit without
   its terminator) success is never reported; with the two theorems above the call returns, so it
   returns Err. *)
Theorem C09_mt_complete : forall (R : Type) (f : nat -> R + Z) c src p (s : state R) t s',
  Fx c -> reachable f c src p s -> step f c s t = Some s' -> results s' = results s ++ [RNone] ->
  nr s' = nd s' /\ map inl (out s') = map f (seq 0 (nd s')) /\
  forall q, q < nd s' -> exists r, f q = inl r.
Proof. exact @mt_complete. Qed.
Print Assumptions C09_mt_complete.

(* State::Error is final: after an error was returned to the caller, the source failed or the input
   was empty (the coordinator is in State::Error), the phase never changes again and the
   success-end value is never returned. *)
Theorem C09_mt_error_sticky : forall (R : Type) (f : nat -> R + Z) c src p (s : state R) t s',
  Fx c -> reachable f c src p s -> ph s = PErr -> step f c s t = Some s' ->
  ph s' = PErr /\ results s' <> results s ++ [RNone].
Proof. exact @mt_error_sticky. Qed.
Print Assumptions C09_mt_error_sticky.

(* ---- the pinned code violates the property (F14) ---- *)
(* a worker fails while the coordinator waits in recv(): nothing can move, the call never returns *)
Theorem C09_mt_deadlock_refuted :
  exists sched s, run_strict f_bad0 rd0 (init rd0 [(true, SEnd)] [OpRead]) sched = Some s /\
                  deadlocked f_bad0 rd0 s = true /\ err s = Some E_INVALID_DATA /\ results s = [].
Proof. exact mt_deadlock_refuted. Qed.
Print Assumptions C09_mt_deadlock_refuted.

(* zero-length input *)
Theorem C09_mt_empty_input_refuted :
  exists sched s, run_strict f_ok rd0 (init rd0 [] [OpRead]) sched = Some s /\ deadlocked f_ok rd0 s = true.
Proof. exact mt_empty_input_deadlock. Qed.
Print Assumptions C09_mt_empty_input_refuted.

(* finish() after write() returned a worker error *)
Theorem C09_mt_finish_after_error_refuted :
  exists sched s, run_strict f_bad0 wr0 (init wr0 [] [OpWrite true; OpFinish]) sched = Some s /\
                  deadlocked f_bad0 wr0 s = true /\ results s = [RErr E_INVALID_DATA].
Proof. exact mt_finish_after_error_refuted. Qed.
Print Assumptions C09_mt_finish_after_error_refuted.

(* Non-vacuity: the hypotheses are satisfiable — the repaired reader on the very scenarios that
   deadlock the pinned code runs to completion and returns the error. *)
Example C09_repaired_examples :
  Fx rd1 /\
  (let '(s, maximal) := run_auto f_bad0 rd1 (init rd1 [(true, SEnd)] [OpRead; OpDrop]) true 200 in
   maximal = true /\ results s = [RErr E_INVALID_DATA] /\ all_exited s = true) /\
  (let '(s, maximal) := run_auto f_ok rd1 (init rd1 [] [OpRead; OpDrop]) true 200 in
   maximal = true /\ results s = [RErr E_UNEXPECTED_EOF] /\ all_exited s = true).
Proof. vm_compute. auto 10. Qed.
