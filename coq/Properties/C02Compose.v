(* Properties/C02Compose.v — C02 / C12 / C16 for the containers with the CONCRETE payload codecs:
   the abstract codec of Properties/C02.v, C12.v, C16Readers.v (hypothesis "pdec inverts penc for
   every dictionary dd >= d") is replaced by the LZMA2 / LZMA writer and reader models of C01, so
   that no codec hypothesis is left.  Only theorem statements, closed by [exact] of lemmas proved
   in Format/ComposeProofs.v (on Format/PayloadLzma2Proofs.v, PayloadLzma1Proofs.v,
   ContainerCondProofs.v) and examples from Format/ComposeExamplesProofs.v.

   The encoder.  The writer models lzma2_write / lzma1_write are relational in the encoder's
   choices (the chunk-event / symbol list that the real encoder's trace is validated against by
   the correspondence check of C01).  An encoder is therefore ANY function [ch] from dictionary
   size and data to such a list whose choices the writer model accepts:
     l2_codec_ok lc lp pb ch : for every dictionary size 4 KiB .. 2 GiB (LZMAOptions::validate
        admits 4 KiB .. 768 MiB) and every byte string, lzma2_write accepts (ch d x) and no event is
        an end-marker symbol;
     l1_member_ok ch d x     : lzma1_write (lc=3 lp=0 pb=2, raw, end marker) accepts (ch d x), no
        end marker among the symbols, and the coded bits stay within RC_MAX_BITS = 2^32 - 7 (the
        u32 pending-byte counter of the range encoder, Codec/RangeProofs.v);
   and the payload written is  l2_penc lc lp pb ch d x  /  l1_penc ch d x  = the writer model on
   these choices.  C02_l2_encoder_exists shows that such an encoder exists for ALL inputs.

   The decoder.  XZ: lzma2_payload_dec dd = LZMA2Reader::new(_, dd, None) read with 4096-byte
   buffers until Ok(0), dd = the dictionary size announced by the block header (>= d, rounded up:
   C02_xz_dict_sound); it is the payload decoder of the executable whole-file reader model
   xz_decode_c, the one the correspondence check runs against XZReader.  LZIP:
   lzip_payload_dec_n calls dd = LZMAReader::new(_, u64::MAX, 3, 0, 2, dd, None) read the same way,
   with [calls] bounding the number of read() calls; lz_decode_c uses 64 + 16 * (source bytes left).

   Side conditions, all stated in the theorems: the data are bytes; XZ dictionary 4 KiB..2 GiB;
   pre-filter codecs are inverses on byte strings and map byte strings to byte strings (C11; the
   Delta model of Filter/Delta.v is such a codec: C02_delta_filter_codec), BCJ filters stay abstract;
   LZIP: per member the encoder side condition l1_member_ok and enough read() calls
   (|member| / 4096 + 2), u64 trailer counters do not wrap. *)
From LzVerif Require Import Base.Bytes Codec.Store Codec.Range Codec.LzWindow Codec.LzmaDec Codec.LzmaEnc
  Codec.LzmaWriters Codec.Lzma1 Codec.Lzma2Dec Codec.LzmaRoundtrip Codec.RangeEncProofs Codec.RangeProofs
  Codec.Lzma1ReadProofs Codec.Lzma2SpecProofs Codec.Lzma2FrameSyncProofs Codec.Lzma2ReadProofs
  Filter.Delta Filter.DeltaProofs
  Format.XzFormat Format.LzipFormat Format.LzipDict Format.XzHeaderProofs Format.XzBlockHeaderProofs
  Format.XzProofs Format.LzipProofs Format.PayloadLzma2Proofs Format.PayloadLzma1Proofs Format.ContainerCondProofs
  Format.ComposeProofs Format.ComposeExamplesProofs.

(* ---- the payload decoders of the container readers on what the writer models wrote ------------- *)

(* LZMA2Reader with a dictionary dd >= the writer's d, read with 4096-byte buffers: the data, and
   exactly the bytes after the stream left unread; the model's call budget (2 + 171 per source
   byte) is sufficient *)
Theorem C02_lzma2_payload_larger_dict : forall lc lp pb d dd data evs stream tail,
  0 <= lc -> 0 <= lp -> lc + lp <= 4 -> 0 <= pb <= 4 -> d <= 2147483648 -> d <= dd ->
  bytes_ok data = true -> l2_no_end evs ->
  lzma2_write lc lp pb d None data evs = Ok stream ->
  lzma2_payload_dec dd (stream ++ tail) = Ok (data, tail).
Proof. exact lzma2_payload_dec_rt. Qed.
Print Assumptions C02_lzma2_payload_larger_dict.

(* LZMAReader (3,0,2, unknown size) with a dictionary dd >= the writer's d *)
Theorem C02_lzma1_payload_larger_dict : forall d dd data syms stream tail calls,
  4096 <= d -> d <= dd -> dd <= 2147483648 ->
  bytes_ok data = true -> no_end syms ->
  lzma1_write 3 0 2 d [] data syms false true None = Ok stream ->
  (forall E c' h', enc_syms (coder_new 3 0 2) (ehist_new d [] data) (syms ++ end_syms true) = Ok (E, c', h') ->
     events_bits E <= RC_MAX_BITS) ->
  zlen data / 4096 + 2 <= Z.of_nat calls ->
  lzip_payload_dec_n calls dd (stream ++ tail) = Ok (data, tail).
Proof. exact lzip_payload_dec_n_rt. Qed.
Print Assumptions C02_lzma1_payload_larger_dict.

(* ---- C02 (XZ) ---------------------------------------------------------------------------------- *)

(* For every LZMA2 encoder [ch] (any lc/lp/pb LZMA2 admits), every pair of pre-filter codecs that
   are inverses on byte strings, every legal options vector ([stream_ok], as in C02_xz), every
   dictionary size 4 KiB..2 GiB and every partition of a byte string into write() calls: whatever
   file the writer returns, the reader - with LZMA2Reader as payload decoder - returns exactly the
   bytes written and consumes the whole file, multi-stream decoding on or off. *)
Theorem C02_xz_lzma2 :
  forall (lc lp pb : Z) (ch : Z -> list Z -> list l2ev),
  l2_params_ok lc lp pb -> l2_codec_ok lc lp pb ch ->
  forall (fenc fdec : fkind -> Z -> list Z -> list Z),
  (forall k p x, bytes_ok x = true -> fdec k p (fenc k p x) = x) ->
  (forall k p x, bytes_ok x = true -> bytes_ok (fenc k p x) = true) ->
  forall o0 parts f multi, stream_ok o0 ->
    4096 <= xo_dict o0 <= 2147483648 -> bytes_ok (concat parts) = true ->
    xz_encode (l2_penc lc lp pb ch) fenc xz_fixed o0 parts = Ok f ->
    xz_decode xz_check_bytes (blockdec lzma2_payload_dec fdec) xz_fixed multi f = Ok (concat parts, []).
Proof. exact C02_xz_lzma2_thm. Qed.
Print Assumptions C02_xz_lzma2.

(* The same for the executable whole-file reader model xz_decode_c (the function the c02 / c04 /
   c12 correspondence runs compare with XZReader): pre-filter chain = Delta filters only (or
   none), the filter codec is the Delta model.  Nothing abstract is left. *)
Theorem C02_xz_lzma2_delta :
  forall (lc lp pb : Z) (ch : Z -> list Z -> list l2ev),
  l2_params_ok lc lp pb -> l2_codec_ok lc lp pb ch ->
  forall o0 parts f multi, stream_ok o0 -> only_delta (xo_filters o0) ->
    4096 <= xo_dict o0 <= 2147483648 -> bytes_ok (concat parts) = true ->
    xz_encode (l2_penc lc lp pb ch) delta_fenc xz_fixed o0 parts = Ok f ->
    xz_decode_c xz_fixed multi f = Ok (concat parts, []).
Proof. exact C02_xz_lzma2_delta_thm. Qed.
Print Assumptions C02_xz_lzma2_delta.

(* the Delta model is a filter codec in the sense of C02_xz_lzma2, and the Delta readers of the
   executable chain compute it *)
Theorem C02_delta_filter_codec :
  (forall k p x, bytes_ok x = true -> delta_fdec k p (delta_fenc k p x) = x) /\
  (forall k p x, bytes_ok x = true -> bytes_ok (delta_fenc k p x) = true) /\
  (forall fs dd src, only_delta fs ->
     xz_blockdec (fs ++ [(FLZMA2, dd)]) src = blockdec lzma2_payload_dec delta_fdec (fs ++ [(FLZMA2, dd)]) src).
Proof. exact (conj delta_fdec_fenc (conj delta_fenc_bytes xz_blockdec_delta)). Qed.
Print Assumptions C02_delta_filter_codec.

(* ---- C12 (XZ) ---------------------------------------------------------------------------------- *)

(* [st_ok_l2]: the stream is what the writer produced with LZMA2 payloads for legal options, a
   dictionary 4 KiB..2 GiB and a byte string; streams may differ in everything, [ch] included in
   the sense that ch may depend on dictionary size and data *)
Theorem C12_xz_multi_lzma2 :
  forall (lc lp pb : Z) (ch : Z -> list Z -> list l2ev),
  l2_params_ok lc lp pb -> l2_codec_ok lc lp pb ch ->
  forall (fenc fdec : fkind -> Z -> list Z -> list Z),
  (forall k p x, bytes_ok x = true -> fdec k p (fenc k p x) = x) ->
  (forall k p x, bytes_ok x = true -> bytes_ok (fenc k p x) = true) ->
  forall (s : xzstream) (t : list xzstream),
    Forall (st_ok_l2 lc lp pb ch fenc) (s :: t) ->
    Forall (fun x => st_pad x mod 4 = 0) (s :: t) ->
    xz_decode xz_check_bytes (blockdec lzma2_payload_dec fdec) xz_fixed true (xz_file (s :: t))
    = Ok (xz_content (s :: t), []).
Proof. exact C12_xz_multi_lzma2_thm. Qed.
Print Assumptions C12_xz_multi_lzma2.

Theorem C12_xz_multi_lzma2_delta :
  forall (lc lp pb : Z) (ch : Z -> list Z -> list l2ev),
  l2_params_ok lc lp pb -> l2_codec_ok lc lp pb ch ->
  forall (s : xzstream) (t : list xzstream),
    Forall (st_ok_l2d lc lp pb ch) (s :: t) ->
    Forall (fun x => st_pad x mod 4 = 0) (s :: t) ->
    xz_decode_c xz_fixed true (xz_file (s :: t)) = Ok (xz_content (s :: t), []).
Proof. exact C12_xz_multi_lzma2_delta_thm. Qed.
Print Assumptions C12_xz_multi_lzma2_delta.

Theorem C12_xz_bad_padding_lzma2 :
  forall (lc lp pb : Z) (ch : Z -> list Z -> list l2ev),
  l2_params_ok lc lp pb -> l2_codec_ok lc lp pb ch ->
  forall (fenc fdec : fkind -> Z -> list Z -> list Z),
  (forall k p x, bytes_ok x = true -> fdec k p (fenc k p x) = x) ->
  (forall k p x, bytes_ok x = true -> bytes_ok (fenc k p x) = true) ->
  forall (s : xzstream) (rest : list Z),
    st_ok_l2 lc lp pb ch fenc s -> st_pad s mod 4 <> 0 ->
    (rest = [] \/ exists ct X, check_known ct = true /\ rest = xz_stream_header ct ++ X) ->
    xz_decode xz_check_bytes (blockdec lzma2_payload_dec fdec) xz_fixed true (st_bytes s ++ rest) = Err E_INVALID_DATA.
Proof. exact C12_xz_bad_padding_lzma2_thm. Qed.
Print Assumptions C12_xz_bad_padding_lzma2.

Theorem C12_xz_garbage_after_stream_lzma2 :
  forall (lc lp pb : Z) (ch : Z -> list Z -> list l2ev),
  l2_params_ok lc lp pb -> l2_codec_ok lc lp pb ch ->
  forall (fenc fdec : fkind -> Z -> list Z -> list Z),
  (forall k p x, bytes_ok x = true -> fdec k p (fenc k p x) = x) ->
  (forall k p x, bytes_ok x = true -> bytes_ok (fenc k p x) = true) ->
  forall (s : xzstream) (b : Z) (X : list Z),
    st_ok_l2 lc lp pb ch fenc s -> b <> 0 -> b <> 253 ->
    xz_decode xz_check_bytes (blockdec lzma2_payload_dec fdec) xz_fixed true (st_bytes s ++ b :: X) = Err E_INVALID_DATA.
Proof. exact C12_xz_garbage_lzma2_thm. Qed.
Print Assumptions C12_xz_garbage_after_stream_lzma2.

(* ---- C16 (XZ, single stream) ------------------------------------------------------------------- *)
Theorem C16_xz_single_stream_lzma2 :
  forall (lc lp pb : Z) (ch : Z -> list Z -> list l2ev),
  l2_params_ok lc lp pb -> l2_codec_ok lc lp pb ch ->
  forall (fenc fdec : fkind -> Z -> list Z -> list Z),
  (forall k p x, bytes_ok x = true -> fdec k p (fenc k p x) = x) ->
  (forall k p x, bytes_ok x = true -> bytes_ok (fenc k p x) = true) ->
  forall o0 parts f rest, stream_ok o0 ->
    4096 <= xo_dict o0 <= 2147483648 -> bytes_ok (concat parts) = true ->
    xz_encode (l2_penc lc lp pb ch) fenc xz_fixed o0 parts = Ok f ->
    xz_decode xz_check_bytes (blockdec lzma2_payload_dec fdec) xz_fixed false (f ++ rest) = Ok (concat parts, rest).
Proof. exact C16_xz_single_stream_lzma2_thm. Qed.
Print Assumptions C16_xz_single_stream_lzma2.

Theorem C16_xz_single_stream_lzma2_delta :
  forall (lc lp pb : Z) (ch : Z -> list Z -> list l2ev),
  l2_params_ok lc lp pb -> l2_codec_ok lc lp pb ch ->
  forall o0 parts f rest, stream_ok o0 -> only_delta (xo_filters o0) ->
    4096 <= xo_dict o0 <= 2147483648 -> bytes_ok (concat parts) = true ->
    xz_encode (l2_penc lc lp pb ch) delta_fenc xz_fixed o0 parts = Ok f ->
    xz_decode_c xz_fixed false (f ++ rest) = Ok (concat parts, rest).
Proof. exact C16_xz_single_stream_lzma2_delta_thm. Qed.
Print Assumptions C16_xz_single_stream_lzma2_delta.

(* ---- C02 / C12 (LZIP) -------------------------------------------------------------------------- *)

(* For every choice function [ch], every requested dictionary size (clamped by the writer), member
   size and partition of a byte string: if the encoder side condition holds for the members the
   writer cuts and the payload decoder may make |member| / 4096 + 2 read() calls, the file the
   writer returns decodes to exactly the bytes written, wholly consumed. *)
Theorem C02_lzip_lzma1 :
  forall (ch : Z -> list Z -> list sym) (calls : nat) o0 parts f,
    bytes_ok (concat parts) = true ->
    (forall members, lz_members_of (lo_member_size (lzw_new o0)) parts = Ok members ->
       lz_sizes_ok (l1_penc ch) (lo_dict (lzw_new o0)) members /\
       Forall (fun c => l1_member_ok ch (lo_dict (lzw_new o0)) c /\ zlen c / 4096 + 2 <= Z.of_nat calls) members) ->
    match lo_member_size o0 with Some m => 1 <= m | None => True end ->
    lz_encode (l1_penc ch) o0 parts = Ok f ->
    lz_decode (lzip_payload_dec_n calls) lz_fixed f = Ok (concat parts, []).
Proof. exact C02_lzip_lzma1_thm. Qed.
Print Assumptions C02_lzip_lzma1.

(* for the executable whole-file reader model lz_decode_c: its call budget (64 + 16 per source
   byte) suffices when no member is compressed by more than a factor of 65536 *)
Theorem C02_lzip_lzma1_c :
  forall (ch : Z -> list Z -> list sym) o0 parts f,
    bytes_ok (concat parts) = true ->
    (forall members, lz_members_of (lo_member_size (lzw_new o0)) parts = Ok members ->
       lz_sizes_ok (l1_penc ch) (lo_dict (lzw_new o0)) members /\
       Forall (fun c => l1_member_ok ch (lo_dict (lzw_new o0)) c /\
                        zlen c / 4096 <= 62 + 16 * zlen (l1_penc ch (lo_dict (lzw_new o0)) c)) members) ->
    match lo_member_size o0 with Some m => 1 <= m | None => True end ->
    lz_encode (l1_penc ch) o0 parts = Ok f ->
    lz_decode_c lz_fixed f = Ok (concat parts, []).
Proof. exact C02_lzip_lzma1_c_thm. Qed.
Print Assumptions C02_lzip_lzma1_c.

(* any concatenation of members (own header byte, dictionary, content each) *)
Theorem C12_lzip_multi_lzma1 :
  forall (ch : Z -> list Z -> list sym) (calls : nat) (m : lzm) (ms : list lzm),
    Forall (lm_ok_l1 ch calls) (m :: ms) ->
    lz_decode (lzip_payload_dec_n calls) lz_fixed (lm_file (l1_penc ch) (m :: ms)) = Ok (lm_data (m :: ms), []).
Proof. exact C12_lzip_multi_lzma1_thm. Qed.
Print Assumptions C12_lzip_multi_lzma1.

Theorem C12_lzip_trailing_data_lzma1 :
  forall (ch : Z -> list Z -> list sym) (calls : nat) (m : lzm) (ms : list lzm) (t : list Z),
    Forall (lm_ok_l1 ch calls) (m :: ms) -> t <> [] ->
    lz_bytes_eqb (firstn 4 t) (firstn (length (firstn 4 t)) LZIP_MAGIC) = false ->
    lz_decode (lzip_payload_dec_n calls) lz_fixed (lm_file (l1_penc ch) (m :: ms) ++ t) = Ok (lm_data (m :: ms), skipn 4 t).
Proof. exact C12_lzip_trailing_lzma1_thm. Qed.
Print Assumptions C12_lzip_trailing_data_lzma1.

(* ---- non-vacuity ------------------------------------------------------------------------------- *)

(* an LZMA2 encoder in the sense of the theorems exists for EVERY dictionary size and byte string:
   the one that stores everything (uncompressed chunks); so the XZ theorems are not vacuous for
   any data *)
Theorem C02_l2_encoder_exists : forall lc lp pb, l2_codec_ok lc lp pb l2_stored.
Proof. exact l2_stored_ok. Qed.
Print Assumptions C02_l2_encoder_exists.

(* an encoder that emits LZMA chunks, a stored chunk and an independent restart on a sample input *)
Example C02_l2_encoder_lzma_chunks : l2_params_ok 3 0 2 /\ l2_codec_ok 3 0 2 ch_ex.
Proof. exact (conj params_302 ch_ex_ok). Qed.

(* the hypotheses on concrete options / data, and the conclusion computed: the file contains the
   LZMA2 stream with LZMA chunks and xz_decode_c returns the data *)
Example C02_xz_lzma2_instance :
  (stream_ok x_opts /\ only_delta (xo_filters x_opts) /\ 4096 <= xo_dict x_opts <= 2147483648 /\
   bytes_ok (concat x_parts) = true) /\
  exists f, xz_encode (l2_penc 3 0 2 ch_ex) delta_fenc xz_fixed x_opts x_parts = Ok f /\
            xz_decode_c xz_fixed true f = Ok (x_data, []) /\
            l2_penc 3 0 2 ch_ex 4096 x_data = Lzma2ExamplesProofs.ex_stream /\
            exists a b, f = a ++ Lzma2ExamplesProofs.ex_stream ++ b.
Proof. exact (conj x_opts_ok x_roundtrip). Qed.

(* two Delta pre-filters, SHA-256, two blocks, followed by foreign bytes, single-stream mode *)
Example C02_xz_lzma2_delta_instance :
  (stream_ok x_opts_delta /\ only_delta (xo_filters x_opts_delta) /\ 4096 <= xo_dict x_opts_delta <= 2147483648 /\
   bytes_ok (concat x_parts_big) = true) /\
  exists f, xz_encode (l2_penc 3 0 2 l2_stored) delta_fenc xz_fixed x_opts_delta x_parts_big = Ok f /\
            xz_decode_c xz_fixed false (f ++ [1; 2; 3]) = Ok (concat x_parts_big, [1; 2; 3]) /\
            xz_blocks_of xz_fixed (Some 4096) x_parts_big
              = Ok [repeatn 7 3000 ++ ProbProofs.zrange 0 200 ++ repeatn 9 896; repeatn 9 1104 ++ [10]].
Proof. exact (conj x_opts_delta_ok x_roundtrip_delta). Qed.

(* LZIP: the hypotheses for a member coded with literals and a match (dictionary 5000, not
   representable exactly in the header byte), and the file decoded by lz_decode_c; twice the file
   by the reader with a budget of two calls per member *)
Example C02_lzip_lzma1_hyps :
  bytes_ok (concat z_parts) = true /\
  (forall members, lz_members_of (lo_member_size (lzw_new z_opts)) z_parts = Ok members ->
     lz_sizes_ok (l1_penc ch1_ex) (lo_dict (lzw_new z_opts)) members /\
     Forall (fun c => l1_member_ok ch1_ex (lo_dict (lzw_new z_opts)) c /\
                      zlen c / 4096 + 2 <= Z.of_nat 2 /\
                      zlen c / 4096 <= 62 + 16 * zlen (l1_penc ch1_ex (lo_dict (lzw_new z_opts)) c)) members) /\
  match lo_member_size z_opts with Some m => 1 <= m | None => True end.
Proof. exact z_hyps. Qed.
Example C02_lzip_lzma1_instance :
  exists f, lz_encode (l1_penc ch1_ex) z_opts z_parts = Ok f /\
            lz_decode_c lz_fixed f = Ok (z_data, []) /\
            lz_decode (lzip_payload_dec_n 2) lz_fixed (f ++ f) = Ok (z_data ++ z_data, []).
Proof. exact z_roundtrip. Qed.
