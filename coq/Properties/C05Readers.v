(* Properties/C05Readers.v — C05 at the level of the READER MODELS: a source that ends before the
   compressed stream is complete.  Only theorem statements, each closed by [exact] of a lemma proved
   in Codec/TruncProofs.v, Codec/TruncLzma1Proofs.v, Codec/TruncLzma2Proofs.v,
   Format/TruncLzipProofs.v, Format/TruncXzProofs.v, Filter/BcjAllProofs.v, Filter/DeltaProofs.v.
   (Properties/C05.v has the retry layer read_exact / write_all.)

   How truncation is represented: the models take the bytes the source will deliver as a list; a
   fetch past its end is what read_exact -> UnexpectedEof is in the code.  The range decoder over
   a stream does not fail there: it substitutes a zero byte and counts the event ([rd_over]); the
   reader checks the count after each decode call (rc.take_error) and fails with UnexpectedEof. *)
From LzVerif Require Import Base.Bytes Codec.Store Codec.Range Codec.LzWindow Codec.LzmaDec Codec.LzmaEnc
  Codec.LzmaWriters Codec.Lzma1 Codec.RangeEncProofs Codec.RangeProofs Codec.LzmaRoundtrip
  Codec.Lzma1LoopProofs Codec.Lzma1ReadProofs
  Codec.Lzma2Dec Codec.Lzma2SpecProofs Codec.Lzma2FrameSyncProofs Codec.Lzma2ReadProofs
  Codec.TruncProofs Codec.TruncLzma1Proofs Codec.TruncLzma2Proofs
  Format.LzipFormat Format.LzipProofs Format.LzipSoundProofs Format.TruncLzipProofs
  Format.XzFormat Format.XzProofs Format.TruncXzProofs
  Filter.Delta Filter.DeltaProofs Filter.Bcj Filter.BcjStream Filter.BcjStreamProofs Filter.BcjAllProofs.

(* ============================================================================================ *)
(* 1. The range decoder under a decision program: INPUT MONOTONICITY.
   [rd_app d tl] = the decoder d with tl appended to its unread input; [run_rc_end p d t] = the
   decoder at the point where the run of program p stops (with a value or a failure);
   [res_app tl] appends tl to the unread input of a result.
   If the run over the shorter input never fetched past its end ([rd_over] unchanged), the run over
   the longer input is the same run - same answers, same result or failure, same tables - and tl
   is left unread behind what the shorter run left. *)
Theorem C05_run_rc_input_monotone : forall (A : Type) (p : prog A) d t tl,
  rd_over (run_rc_end p d t) = rd_over d ->
  run_rc p (rd_app d tl) t = omap (res_app tl) (run_rc p d t).
Proof. exact @run_rc_mono. Qed.
Print Assumptions C05_run_rc_input_monotone.

(* Read for a TRUNCATED input [firstn k full]: the run is exactly the run over the complete input
   (which leaves, in addition, the cut-off bytes unread), or it has fetched past the end. *)
Theorem C05_run_rc_truncated : forall (A : Type) (p : prog A) range code full over t k,
  let dt := mkRdec range code (firstn k full) over in
  let df := mkRdec range code full over in
  over < rd_over (run_rc_end p dt t) \/
  run_rc p df t = omap (res_app (skipn k full)) (run_rc p dt t).
Proof. exact @run_rc_truncated. Qed.
Print Assumptions C05_run_rc_truncated.

(* ... lifted through decode_loop / LZMADecoder::decode: one decode call *)
Theorem C05_lzma_decode_input_monotone : forall c w d t tl c1 w1 st d1 t1,
  lzma_decode c w d t = Ok (c1, w1, st, d1, t1) -> rd_over d1 = rd_over d ->
  lzma_decode c w (rd_app d tl) t = Ok (c1, w1, st, rd_app d1 tl, t1).
Proof. exact lzma_decode_mono. Qed.
Print Assumptions C05_lzma_decode_input_monotone.

Theorem C05_lzma_decode_truncated : forall c w range code full t k c1 w1 st d1 t1,
  lzma_decode c w (mkRdec range code (firstn k full) 0) t = Ok (c1, w1, st, d1, t1) ->
  0 < rd_over d1 \/
  lzma_decode c w (mkRdec range code full 0) t = Ok (c1, w1, st, rd_app d1 (skipn k full), t1).
Proof. exact lzma_decode_truncated. Qed.
Print Assumptions C05_lzma_decode_truncated.

(* ============================================================================================ *)
(* 2. LZMAReader.
   (a) for ANY input: a read history that succeeds over an input succeeds identically over every
       extension of it and leaves the extension unread ([l1_app s tl] = reader state s with tl
       appended to its source).  With C16 (the complete stream is consumed exactly) this already
       excludes "success on a truncated stream". *)
Theorem C05_lzma1_reader_input_monotone : forall fuel tl s sizes all acc out s1,
  rd_over (l_rc s) = 0 ->
  lzma1_read_all fuel s sizes all acc = Ok (out, s1) ->
  lzma1_read_all fuel (l1_app s tl) sizes all acc = Ok (out, l1_app s1 tl).
Proof. exact lzma1_read_all_mono. Qed.
Print Assumptions C05_lzma1_reader_input_monotone.

(* (b) every stream the writer model produces (end marker or declared size), every PROPER PREFIX
   [firstn k stream], every history of positive destination sizes: the construction fails with
   UnexpectedEof (fewer than the 5 bytes of the range-decoder start), or the reader hands out a
   prefix [firstn m data] of the data and then fails with UnexpectedEof.  [lzma1_read_obs] is the
   read history of lzma1_read_all that also reports the bytes of the calls before the failing
   one.  Never Ok/end of stream, never a panic, never out of fuel. *)
Theorem C05_lzma1_truncated_raw : forall lc lp pb dict data syms use_end_marker stream sizes k,
  0 <= lc <= 8 -> 0 <= lp <= 4 -> 0 <= pb <= 4 -> 4096 <= dict <= 2147483648 ->
  bytes_ok data = true -> no_end syms ->
  lzma1_write lc lp pb dict [] data syms false use_end_marker None = Ok stream ->
  (forall E c' h', enc_syms (coder_new lc lp pb) (ehist_new dict [] data) (syms ++ end_syms use_end_marker) = Ok (E, c', h') ->
     events_bits E <= RC_MAX_BITS) ->
  Forall (fun z => 0 < z) sizes ->
  (k < length stream)%nat ->
  let uncomp := if use_end_marker then U64_MAX else zlen data in
  lzma1_construct2 (firstn k stream) uncomp lc lp pb dict None = Err E_UNEXPECTED_EOF \/
  exists s0, lzma1_construct2 (firstn k stream) uncomp lc lp pb dict None = Ok s0 /\
    forall fuel, zlen data + 2 <= Z.of_nat fuel ->
    exists m, lzma1_read_obs fuel s0 sizes sizes [] = (firstn m data, Err E_UNEXPECTED_EOF) /\
              lzma1_read_all fuel s0 sizes sizes [] = Err E_UNEXPECTED_EOF.
Proof. exact lzma1_truncated_raw. Qed.
Print Assumptions C05_lzma1_truncated_raw.

(* the .lzma file (13-byte header; optional preset dictionary) through LZMAReader::new_mem_limit *)
Theorem C05_lzma1_truncated_header : forall lc lp pb dict popt data syms use_end_marker stream sizes mem_limit_kb need k,
  0 <= lc <= 8 -> 0 <= lp <= 4 -> 0 <= pb <= 4 -> 4096 <= dict <= 2147483648 ->
  let preset := preset_list popt in
  bytes_ok preset = true -> bytes_ok data = true -> no_end syms ->
  preset_hyps dict preset data use_end_marker ->
  lzma1_write lc lp pb dict preset data syms true use_end_marker
              (if use_end_marker then None else Some (zlen data)) = Ok stream ->
  (forall E c' h', enc_syms (coder_new lc lp pb) (ehist_new dict preset data) (syms ++ end_syms use_end_marker) = Ok (E, c', h') ->
     events_bits E <= RC_MAX_BITS) ->
  Forall (fun z => 0 < z) sizes ->
  lzma1_memory_usage dict lc lp = Ok need -> need <= mem_limit_kb ->
  (k < length stream)%nat ->
  lzma1_new_mem_limit (firstn k stream) mem_limit_kb popt = Err E_UNEXPECTED_EOF \/
  exists s0, lzma1_new_mem_limit (firstn k stream) mem_limit_kb popt = Ok s0 /\
    forall fuel, zlen data + 2 <= Z.of_nat fuel ->
    exists m, lzma1_read_obs fuel s0 sizes sizes [] = (firstn m data, Err E_UNEXPECTED_EOF) /\
              lzma1_read_all fuel s0 sizes sizes [] = Err E_UNEXPECTED_EOF.
Proof. exact lzma1_truncated_header. Qed.
Print Assumptions C05_lzma1_truncated_header.

(* [lzma1_read_obs] is the same read history as lzma1_read_all of the model file *)
Theorem C05_lzma1_read_obs_is_read_all : forall fuel s sizes all acc,
  lzma1_read_all fuel s sizes all acc =
  match snd (lzma1_read_obs fuel s sizes all acc) with
  | Ok s1 => Ok (fst (lzma1_read_obs fuel s sizes all acc), s1)
  | Err e => Err e
  | Panic e => Panic e
  | Fuel => Fuel
  end.
Proof. exact read_obs_all. Qed.
Print Assumptions C05_lzma1_read_obs_is_read_all.

(* non-vacuity: the example stream of Lzma1ReadProofs.v satisfies the hypotheses
   (lzma1_roundtrip_raw_hyps there); here every one of its cut points is evaluated, with end marker
   and with declared size, for several read histories: UnexpectedEof after a prefix of the data *)
Example C05_lzma1_truncated_example :
  all_cuts true [1; 3] = true /\ all_cuts false [1; 3] = true /\ all_cuts true [4096] = true /\ all_cuts false [2] = true.
Proof. exact lzma1_truncated_all_cuts. Qed.
Example C05_lzma1_truncated_hyps_example : True.
Proof. pose proof lzma1_roundtrip_raw_hyps. exact I. Qed.

(* ============================================================================================ *)
(* 3. LZMA2Reader.
   (a) for ANY reader state and any bytes tl appended to its source ([m_app s tl]): a whole read
       history over the shorter source stops with UnexpectedEof after bytes that the history over
       the longer source returns as well, or it is that history ([l2_all_app tl] appends tl to the
       source of the final state). *)
Theorem C05_lzma2_reader_truncated_step : forall tl fuel s sizes all acc,
  (exists out st, lzma2_read_all fuel s sizes all acc = Ok (out, E_UNEXPECTED_EOF, st) /\
     forall outf ef sf, lzma2_read_all fuel (m_app s tl) sizes all acc = Ok (outf, ef, sf) -> exists rest, outf = out ++ rest) \/
  lzma2_read_all fuel (m_app s tl) sizes all acc = omap (l2_all_app tl) (lzma2_read_all fuel s sizes all acc).
Proof. exact lzma2_read_all_tr. Qed.
Print Assumptions C05_lzma2_reader_truncated_step.

(* (b) every stream of the writer model, every proper prefix, every history of positive sizes: the
   history ends with status UnexpectedEof (lzma2_read_all keeps the bytes of the earlier calls)
   after a prefix of the data *)
Theorem C05_lzma2_truncated : forall lc lp pb dict data evs stream sizes k,
  0 <= lc -> 0 <= lp -> lc + lp <= 4 -> 0 <= pb <= 4 -> dict <= 2147483648 ->
  bytes_ok data = true ->
  l2_no_end evs ->
  lzma2_write lc lp pb dict None data evs = Ok stream ->
  Forall (fun z => 0 < z) sizes ->
  (k < length stream)%nat ->
  exists s0, lzma2_new (firstn k stream) dict None = Ok s0 /\
    forall fuel, (length data + 2 <= fuel)%nat ->
    exists out st, lzma2_read_all fuel s0 sizes sizes [] = Ok (out, E_UNEXPECTED_EOF, st) /\
                   exists rest, data = out ++ rest.
Proof. exact lzma2_truncated. Qed.
Print Assumptions C05_lzma2_truncated.

Theorem C05_lzma2_truncated_preset : forall lc lp pb dict p data evs stream sizes k,
  0 <= lc -> 0 <= lp -> lc + lp <= 4 -> 0 <= pb <= 4 -> dict <= 2147483648 ->
  p <> [] -> (zlen p <= dict \/ l2_window_size dict = dict) ->
  bytes_ok p = true -> bytes_ok data = true ->
  l2_no_end evs ->
  lzma2_write lc lp pb dict (Some p) data evs = Ok stream ->
  Forall (fun z => 0 < z) sizes ->
  (k < length stream)%nat ->
  exists s0, lzma2_new (firstn k stream) dict (Some p) = Ok s0 /\
    forall fuel, (length data + 2 <= fuel)%nat ->
    exists out st, lzma2_read_all fuel s0 sizes sizes [] = Ok (out, E_UNEXPECTED_EOF, st) /\
                   exists rest, data = out ++ rest.
Proof. exact lzma2_truncated_preset. Qed.
Print Assumptions C05_lzma2_truncated_preset.

(* the recorded error is sticky *)
Theorem C05_lzma2_error_sticky : forall s e buflen, 0 < buflen -> lzma2_read (lzma2_set_error s e) buflen = Err e.
Proof. exact lzma2_error_sticky. Qed.
Print Assumptions C05_lzma2_error_sticky.

(* non-vacuity: the stream of Lzma2ExamplesProofs.v (LZMA chunk, stored chunk, restart, LZMA
   chunk) satisfies the hypotheses; all 33 cut points evaluated for two read histories *)
Example C05_lzma2_truncated_example :
  length Lzma2ExamplesProofs.ex_stream = 33%nat /\
  forallb (l2_cut [3; 1]) (seq 0 (length Lzma2ExamplesProofs.ex_stream)) = true /\
  forallb (l2_cut [4096]) (seq 0 (length Lzma2ExamplesProofs.ex_stream)) = true.
Proof. exact lzma2_truncated_all_cuts. Qed.
Example C05_lzma2_truncated_hyps_example : True.
Proof. pose proof Lzma2ExamplesProofs.lzma2_roundtrip_hyps. pose proof lzma2_truncated_instance. exact I. Qed.

(* ============================================================================================ *)
(* 4. LZIP container (whole-file reader model lz_decode with the fix patches), payload codec
   abstract: hypotheses are its round trip with exact consumption (C01 + C16) and that it rejects
   a truncated payload (for the LZMAReader model that is C05_lzma1_truncated_raw above).
   A file is a sequence of members.  Every proper prefix p of it either is rejected with an error
   or ends exactly between two members - then p is itself a complete LZIP file (the format has no
   end-of-file record) and the members it contains are returned; p = [] is the known finding. *)
Theorem C05_lzip_truncated :
  forall (penc : Z -> list Z -> list Z) (pdec : Z -> list Z -> outcome (list Z * list Z)),
  (forall d dd x tail, d <= dd -> pdec dd (penc d x ++ tail) = Ok (x, tail)) ->
  (forall d dd x p tl, d <= dd -> penc d x = p ++ tl -> tl <> [] -> exists e, pdec dd p = Err e) ->
  forall ms p tl, Forall (lm_ok penc) ms -> lm_file penc ms = p ++ tl -> tl <> [] ->
    (exists e, lz_decode pdec lz_fixed p = Err e) \/
    (exists ms1 ms2, ms = ms1 ++ ms2 /\ ms2 <> [] /\ p = lm_file penc ms1 /\
                     lz_decode pdec lz_fixed p = Ok (lm_data ms1, [])).
Proof. exact lzip_truncated_thm. Qed.
Print Assumptions C05_lzip_truncated.

(* what LZIPWriter returned for any options and write() calls, cut anywhere (p <> []) *)
Theorem C05_lzip_truncated_written :
  forall (penc : Z -> list Z -> list Z) (pdec : Z -> list Z -> outcome (list Z * list Z)),
  (forall d dd x tail, d <= dd -> pdec dd (penc d x ++ tail) = Ok (x, tail)) ->
  (forall d dd x p tl, d <= dd -> penc d x = p ++ tl -> tl <> [] -> exists e, pdec dd p = Err e) ->
  forall o0 parts f p tl,
    bytes_ok (concat parts) = true ->
    (forall members, lz_members_of (lo_member_size (lzw_new o0)) parts = Ok members ->
                     lz_sizes_ok penc (lo_dict (lzw_new o0)) members) ->
    match lo_member_size o0 with Some m => 1 <= m | None => True end ->
    lz_encode penc o0 parts = Ok f ->
    f = p ++ tl -> tl <> [] -> p <> [] ->
    (exists e, lz_decode pdec lz_fixed p = Err e) \/
    (exists cs1 cs2, cs1 <> [] /\ cs2 <> [] /\ concat parts = concat cs1 ++ concat cs2 /\
                     lz_decode pdec lz_fixed p = Ok (concat cs1, [])).
Proof. exact lzip_truncated_written. Qed.
Print Assumptions C05_lzip_truncated_written.

(* without a configured member size the writer writes ONE member: every proper non-empty prefix of
   its output is rejected *)
Theorem C05_lzip_truncated_single_member :
  forall (penc : Z -> list Z -> list Z) (pdec : Z -> list Z -> outcome (list Z * list Z)),
  (forall d dd x tail, d <= dd -> pdec dd (penc d x ++ tail) = Ok (x, tail)) ->
  (forall d dd x p tl, d <= dd -> penc d x = p ++ tl -> tl <> [] -> exists e, pdec dd p = Err e) ->
  forall o0 parts f p tl,
    bytes_ok (concat parts) = true ->
    lz_sizes_ok penc (lo_dict (lzw_new o0)) [concat parts] ->
    lo_member_size o0 = None ->
    lz_encode penc o0 parts = Ok f ->
    f = p ++ tl -> tl <> [] -> p <> [] ->
    exists e, lz_decode pdec lz_fixed p = Err e.
Proof. exact lzip_truncated_written_single. Qed.
Print Assumptions C05_lzip_truncated_single_member.

(* KNOWN FINDING lzip-empty-input (known-findings.txt): the empty prefix of every LZIP file - the
   file truncated to zero bytes - is accepted as an empty file.  The theorems above are the
   statement outside the known class (p <> []); this is the witness for the class. *)
Theorem C05_lzip_empty_prefix_known :
  forall (pdec : Z -> list Z -> outcome (list Z * list Z)) (f : list Z), lz_decode pdec lz_fixed (firstn 0 f) = Ok ([], []).
Proof. exact (fun pdec f => lz_decode_empty_known pdec). Qed.
Print Assumptions C05_lzip_empty_prefix_known.

(* non-vacuity: a payload codec with both hypotheses exists; all cut points of a written
   one-member file and of a three-member file evaluated *)
Example C05_lzip_codec_exists :
  exists (penc : Z -> list Z -> list Z) (pdec : Z -> list Z -> outcome (list Z * list Z)),
    (forall d dd x tail, d <= dd -> pdec dd (penc d x ++ tail) = Ok (x, tail)) /\
    (forall d dd x p tl, d <= dd -> penc d x = p ++ tl -> tl <> [] -> exists e, pdec dd p = Err e).
Proof. exact truncating_payload_codec_exists. Qed.
Example C05_lzip_truncated_examples : True.
Proof. pose proof lzip_truncated_single_example. pose proof lzip_truncated_multi_example. exact I. Qed.

(* ============================================================================================ *)
(* 4b. XZ container (whole-file reader model xz_decode), check function H and block decoder
   abstract.  [trx f rt rf]: the step over the truncated input (rt) fails with an error, or the step
   over the complete input (rf) is the same step with the cut-off bytes left unread (f appends them).
   Hypotheses on the block decoder: it has this property and it only consumes input.  Then: a file
   accepted in single-stream mode with nothing left unread has NO accepted proper prefix - every
   one (the empty one included) is rejected with an error, with multi-stream decoding on or off.
   Every parser of the reader (stream header, block header, padding, check, index, footer) is
   proved to have the [trx] property for arbitrary input. *)
Theorem C05_xz_truncated :
  forall (tl : list Z) (H : Z -> list Z -> list Z) (blockdec : list (fkind * Z) -> list Z -> outcome (list Z * list Z)),
  (forall fs src, trx (rapp tl) (blockdec fs src) (blockdec fs (src ++ tl))) ->
  (forall fs src c r, blockdec fs src = Ok (c, r) -> (length r <= length src)%nat) ->
  forall fx p d, tl <> [] ->
    xz_decode H blockdec fx false (p ++ tl) = Ok (d, []) ->
    forall multi, exists e, xz_decode H blockdec fx multi p = Err e.
Proof. exact xz_truncated_gen. Qed.
Print Assumptions C05_xz_truncated.

(* every file XZWriter produces (any options a caller may configure, any partition into write()
   calls), cut anywhere: rejected.  Payload / filter codecs abstract as in C02 (round trip with
   exact consumption; filters inverse) plus the two decoder properties above. *)
Theorem C05_xz_truncated_written :
  forall (penc : Z -> list Z -> list Z) (pdec : Z -> list Z -> outcome (list Z * list Z)),
  (forall d dd x tail, d <= dd -> pdec dd (penc d x ++ tail) = Ok (x, tail)) ->
  (forall tl dd src, trx (rapp tl) (pdec dd src) (pdec dd (src ++ tl))) ->
  (forall dd src x r, pdec dd src = Ok (x, r) -> (length r <= length src)%nat) ->
  forall (fenc fdec : fkind -> Z -> list Z -> list Z),
  (forall k p x, fdec k p (fenc k p x) = x) ->
  forall o0 parts f p tl multi, stream_ok o0 ->
    xz_encode penc fenc xz_fixed o0 parts = Ok f ->
    f = p ++ tl -> tl <> [] ->
    exists e, xz_decode xz_check_bytes (blockdec pdec fdec) xz_fixed multi p = Err e.
Proof. exact xz_truncated_written. Qed.
Print Assumptions C05_xz_truncated_written.

(* the LZMA2Reader model read to its end (any budget of 4096-byte read() calls) has the [trx]
   property assumed of the payload decoder *)
Theorem C05_lzma2_payload_truncated_step : forall calls tl dict src,
  trx (rapp tl) (lzma2_payload_dec_n calls dict src) (lzma2_payload_dec_n calls dict (src ++ tl)).
Proof. exact lzma2_payload_dec_n_trx. Qed.
Print Assumptions C05_lzma2_payload_truncated_step.

(* non-vacuity: a payload codec with all three hypotheses exists; a written two-block file
   (Delta + payload, CRC32) is rejected at every one of its cut points in both modes *)
Example C05_xz_codec_exists :
  exists (penc : Z -> list Z -> list Z) (pdec : Z -> list Z -> outcome (list Z * list Z)),
    (forall d dd x tail, d <= dd -> pdec dd (penc d x ++ tail) = Ok (x, tail)) /\
    (forall tl dd src, trx (rapp tl) (pdec dd src) (pdec dd (src ++ tl))) /\
    (forall dd src x r, pdec dd src = Ok (x, r) -> (length r <= length src)%nat).
Proof. exact truncating_xz_codec_exists. Qed.
Example C05_xz_truncated_example : True.
Proof. pose proof xz_truncated_example. pose proof ex_trunc_stream_ok. exact I. Qed.

(* ============================================================================================ *)
(* 5. Filters over a faulty / chopping inner reader (shared with C11).
   BCJReader over an inner reader that delivers its data in arbitrary pieces and fails now and
   then, read by a loop with positive destination sizes that repeats a call failing with
   Interrupted: a prefix of the stream-level result is obtained; the loop ends normally only with
   the whole result; it ends with an error only with a non-transient error of the inner reader
   (carrying that error's kind); transient failures alone never change the result. *)
Theorem C05_bcj_reader_retry : forall a start inner sizes,
  script_ok inner -> bytes_ok (script_data inner) = true -> Forall (fun s => 0 < s) sizes ->
  exists F out e,
    bcj_stream a false start (script_data inner) = Ok F /\
    bcj_dec_script a start inner sizes = Ok (out, e) /\
    (exists Y, F = out ++ Y) /\
    (e = None -> out = F) /\
    (forall c, e = Some c -> c <> E_INTERRUPTED /\ In c (script_errs inner)) /\
    (Forall (fun c => c = E_INTERRUPTED) (script_errs inner) -> e = None /\ out = F).
Proof. exact bcj_reader_retry. Qed.
Print Assumptions C05_bcj_reader_retry.

(* DeltaReader decodes whatever each read() of the inner reader returned: however the inner
   reader chops its data into short reads, the decoded bytes are those of the whole *)
Theorem C05_delta_reader_short_reads : forall d parts,
  delta_read_calls d parts = delta_decode d (concat parts).
Proof. exact delta_read_partition. Qed.
Print Assumptions C05_delta_reader_short_reads.
