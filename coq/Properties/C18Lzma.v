(* Properties/C18Lzma.v — the .lzma clause of C18: the declared (expected) uncompressed size of
   LZMAWriter is honoured.  Only a theorem statement, closed by [exact] of a lemma of
   Codec/EncWindowProofs.v (the same lemma is restated for C07).

   For EVERY call history (write partition with empty writes, flushes, finish), every parser
   strategy and every option vector in range, what each call of a writer created with
   expected = Some ex returns is the function [l1_results] of the slice lengths and ex alone:
   a write that would pass ex is rejected, finish is rejected unless exactly ex bytes were
   accepted, and a successful finish means declared = accepted = coded (sum of the symbol
   lengths).  The writer model does not look at use_header: the rule holds with and without the
   13-byte header (area purity: commands lzexp / lzexpn). *)
From LzVerif Require Import Base.Bytes Codec.EncWindow Codec.EncWindowProofs.

Theorem C18_lzma_expected_size : forall (PS : Type) (parse : PS -> Z -> Z -> strat PS) (ps0 : PS)
    normal bt4 dict nice ex ops,
  opts_ok dict nice -> ops_ok ops -> ops_total ops <= U32_MAX ->
  okor (do s <- l1_new PS normal bt4 dict nice None (Some ex) ps0; l1_run PS parse s ops [])
       (fun r =>
          let '(s1, res) := r in
          let '(rs, c, fin) := l1_results (Some ex) 0 ops in
          res = rs /\ sum_fill (l1_tr _ s1) = c /\
          (fin = true -> ex = c /\ sum_sym (l1_tr _ s1) = ex)).
Proof. exact lzma_expected_size. Qed.
Print Assumptions C18_lzma_expected_size.
