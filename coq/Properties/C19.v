(* Properties/C19.v — a writer that reports success has produced a decodable stream; out-of-range
   options are rejected, never accepted silently and never a panic.
   Only theorem statements, each closed by [exact] of a lemma of Arith/OptionsProofs.v.
   Model: Arith/Options.v - (1) the arithmetic the public option fields feed (LZMAEncoder::new table
   sizes, per-symbol table indices, properties byte, XZ/LZIP header properties) with wrap / Panic
   explicit in both build profiles [ck]; (2) the validation of the repaired constructors
   (repo-patches/03..07) and the outcome class of construct / write / finish per writer kind.
   That a stream produced from in-range options DECODES to the input is the round-trip theorem of
   C01/C02 (codec/container models, not part of this file); here it is covered by the
   implementation oracle of the correspondence run. *)
From LzVerif Require Import Base.Bytes Arith.MemUsage Arith.Options Arith.OptionsProofs Format.LzipDict.

(* ---- C19_in: the documented domain ---------------------------------------------------------- *)
(* construct, write and finish succeed (no Err, no Panic), both build profiles, every writer kind *)
Theorem C19_in : forall ck k o fs len, opts_ok k o fs = true -> 0 <= len ->
  writer_outcome ck k o fs len = ObsOk.
Proof. exact C19_in_model. Qed.
Print Assumptions C19_in.

(* no constructor-time panic: LZMAEncoder::new returns its tables, of the stated sizes, in both
   profiles; any i32 depth_limit yields a positive search depth *)
Theorem C19_encoder_new_ok : forall lzma2 o, lzma_opts_ok lzma2 o = true ->
  exists slots, (forall ck extra, 0 <= extra <= 65536 -> encoder_new ck extra o = Ok (tables_of o slots)) /\ 1 <= slots <= 64 /\
                (-2147483648 <= o_depth o <= 2147483647 -> 0 < effective_depth (o_mf o) (o_depth o) (o_nice o)).
Proof. exact encoder_new_ok. Qed.
Print Assumptions C19_encoder_new_ok.

(* every table index computed from (lc, lp, pb, position, previous byte, state, length) is inside
   its table: is_match/is_rep0_long [12][16], the 2^(lc+lp) literal coders, the length coder's
   2^pb rows of max(nice_len-1,16) prices, the nice_len-1 match slots *)
Theorem C19_ctx_index_bounds : forall lzma2 o slots ck pos prev state,
  lzma_opts_ok lzma2 o = true -> 0 <= pos < U32 -> 0 <= prev < 256 -> 0 <= state < 12 ->
  let t := tables_of o slots in
  0 <= pos_state t pos < 2 ^ o_pb o /\ 2 ^ o_pb o <= 16 /\
  is_match_index t state pos = Ok (state, pos_state t pos) /\
  (exists i, literal_index ck t prev pos = Ok i /\ 0 <= i < t_lit_count t) /\
  (forall len, 2 <= len <= o_nice o -> len_index t pos len = Ok (pos_state t pos, len - 2)) /\
  (forall k, 0 <= k < o_nice o - 1 -> matches_index t k = Ok k).
Proof. exact ctx_index_bounds. Qed.
Print Assumptions C19_ctx_index_bounds.

(* the properties byte (pb*5+lp)*9+lc does not wrap and means the same (lc,lp,pb) to the LZMA
   decoder; the LZMA2 decoder accepts it iff lc+lp <= 4 *)
Theorem C19_props_roundtrip : forall ck lc lp pb, 0 <= lc <= 8 -> 0 <= lp <= 4 -> 0 <= pb <= 4 ->
  exists b, props_byte ck lc lp pb = Ok b /\ 0 <= b <= 224 /\ b = (pb * 5 + lp) * 9 + lc /\
            lzma_decode_props b = Ok (lc, lp, pb) /\
            (lc + lp <= 4 -> lzma2_decode_props b = Ok (lc, lp, pb)) /\
            (4 < lc + lp -> lzma2_decode_props b = Err E_INVALID_INPUT).
Proof. exact props_roundtrip. Qed.
Print Assumptions C19_props_roundtrip.

(* container header properties derived from the options announce what the encoder uses *)
Theorem C19_xz_dict_prop_ok : forall d, DICT_SIZE_MIN <= d <= ENC_DICT_SIZE_MAX ->
  exists p ds, xz_encode_dict_size d = Ok p /\ xz_reader_dict_size p = Ok ds /\ d <= ds.
Proof. exact xz_dict_prop_ok. Qed.
Print Assumptions C19_xz_dict_prop_ok.

Theorem C19_xz_delta_prop_ok : forall ck dist, 1 <= dist <= 256 ->
  exists b, xz_delta_prop ck dist = Ok b /\ 0 <= b < 256 /\ xz_reader_delta_distance b = dist /\
            delta_effective_distance dist = dist.
Proof. exact xz_delta_prop_ok. Qed.
Print Assumptions C19_xz_delta_prop_ok.

Theorem C19_xz_bcj_offset_ok : forall f, filter_ok f = true -> f_kind f <> FDelta ->
  xz_reader_bcj_check (f_kind f) (f_prop f) = Ok (f_prop f).
Proof. exact xz_bcj_offset_ok. Qed.
Print Assumptions C19_xz_bcj_offset_ok.

Theorem C19_lzip_dict_ok_for_every_request : forall o,
  exists dd, lzip_header_dict (o_dict o) = Ok dd /\ o_dict (lzip_effective o) <= dd.
Proof. exact lzip_dict_ok_for_every_request. Qed.
Print Assumptions C19_lzip_dict_ok_for_every_request.

(* ---- C19_out: everything outside the documented domain -------------------------------------- *)
(* Classification.  For every value of every public field (any u32 / i32 / preset / filter list):
   - harmless by construction, hence inside opts_ok: every depth_limit (theorem below), the
     lc/lp/pb/dict_size LZIPWriter overwrites or clamps (opts_ok WLzip looks at lzip_effective only),
     an empty-but-Some preset dictionary for LZMAWriter-without-header and LZMA2Writer (the
     repaired LZMA2Writer treats it as None, as LZMA2Reader does);
   - every other out-of-range class is REJECTED: InvalidInput (lc/lp/pb, lc+lp > 4 with LZMA2/XZ,
     dict_size, nice_len, delta distance, BCJ alignment, LZMA2 as pre-filter, > 3 pre-filters) or
     Unsupported (preset dictionary with a .lzma header, XZ or LZIP), by the constructor where it
     returns Result, by the first write()/finish() for LZMA2Writer and LZIPWriter.
   No class is left that panics or yields an undecodable success (genuine defects of the unchanged
   tree: refuted below, repaired by repo-patches/03..07). *)
Theorem C19_out : forall ck k o fs len, opts_typed o fs -> opts_ok k o fs = false -> 0 <= len ->
  exists c st, writer_outcome ck k o fs len = ObsErr c st /\
               (c = E_INVALID_INPUT \/ c = E_UNSUPPORTED) /\
               (match k with WLzma2 | WLzip => st = deferred len | _ => st = SNew end).
Proof. exact C19_out_model. Qed.
Print Assumptions C19_out.

Theorem C19_depth_limit_any_value_ok : forall ck k o fs len d,
  writer_outcome ck k (set_depth o d) fs len = writer_outcome ck k o fs len.
Proof. exact depth_limit_any_value_ok. Qed.
Print Assumptions C19_depth_limit_any_value_ok.

Theorem C19_lzip_ignores_lc_lp_pb : forall ck o lc lp pb fs len,
  writer_outcome ck WLzip o fs len =
  writer_outcome ck WLzip {| o_dict := o_dict o; o_lc := lc; o_lp := lp; o_pb := pb; o_mode := o_mode o; o_mf := o_mf o;
                             o_nice := o_nice o; o_depth := o_depth o; o_preset := o_preset o |} fs len.
Proof. exact lzip_ignores_lc_lp_pb. Qed.
Print Assumptions C19_lzip_ignores_lc_lp_pb.

(* ---- the unchecked arithmetic (unchanged tree) refuted, class by class (F21) ----------------- *)
Theorem C19_unchecked_pb5_refuted :
  with_tables (encoder_new false 0 (wit 65536 3 0 5 32)) (fun t => is_match_index t 0 16 = Panic P_INDEX) /\
  with_tables (encoder_new true 0 (wit 65536 3 0 5 32)) (fun t => is_match_index t 0 16 = Panic P_INDEX) /\
  props_byte true 3 0 5 = Ok 228 /\ lzma_decode_props 228 = Err E_INVALID_INPUT.
Proof. exact unchecked_pb5_refuted. Qed.
Print Assumptions C19_unchecked_pb5_refuted.

Theorem C19_unchecked_lc9_refuted :
  props_byte true 9 0 2 = Ok 99 /\ lzma_decode_props 99 = Ok (0, 1, 2) /\
  with_tables (encoder_new true 0 (wit 65536 9 0 2 32)) (fun t => literal_index true t 65 0 = Panic P_OVERFLOW).
Proof. exact unchecked_lc9_refuted. Qed.
Print Assumptions C19_unchecked_lc9_refuted.

Theorem C19_unchecked_lclp_lzma2_refuted :
  with_tables (encoder_new true 61440 (wit 4096 4 1 2 32)) (fun _ => True) /\
  props_byte true 4 1 2 = Ok 103 /\ lzma_decode_props 103 = Ok (4, 1, 2) /\
  lzma2_decode_props 103 = Err E_INVALID_INPUT.
Proof. exact unchecked_lclp_lzma2_refuted. Qed.
Print Assumptions C19_unchecked_lclp_lzma2_refuted.

Theorem C19_unchecked_huge_lc_refuted :
  encoder_new true 0 (wit 65536 4294967295 0 2 32) = Panic P_OVERFLOW /\
  encoder_new false 0 (wit 65536 4294967295 0 2 32) = Panic P_CAPACITY.
Proof. exact unchecked_huge_lc_refuted. Qed.
Print Assumptions C19_unchecked_huge_lc_refuted.

Theorem C19_unchecked_dict0_refuted :
  encoder_new true 0 (wit 0 3 0 2 32) = Panic P_OVERFLOW /\
  with_tables (encoder_new false 0 (wit 0 3 0 2 32)) (fun t => t_dist_slots t = 64).
Proof. exact unchecked_dict0_refuted. Qed.
Print Assumptions C19_unchecked_dict0_refuted.

Theorem C19_unchecked_nice_len_refuted :
  encoder_new true 0 (wit 65536 3 0 2 0) = Panic P_OVERFLOW /\
  encoder_new false 0 (wit 65536 3 0 2 0) = Panic P_CAPACITY /\
  encoder_new true 0 (wit 65536 3 0 2 1) = Panic P_OVERFLOW /\
  with_tables (encoder_new false 0 (wit 65536 3 0 2 1)) (fun t => matches_index t 0 = Panic P_INDEX) /\
  with_tables (encoder_new true 0 (wit 65536 3 0 2 2)) (fun t => matches_index t 1 = Panic P_INDEX).
Proof. exact unchecked_nice_len_refuted. Qed.
Print Assumptions C19_unchecked_nice_len_refuted.

Theorem C19_unchecked_huge_nice_len_refuted :
  with_tables (encoder_new true 0 (wit 65536 3 0 2 4294967295))
              (fun t => t_matches t = 4294967294 /\ t_len_symbols t = 4294967294).
Proof. exact unchecked_huge_nice_len_refuted. Qed.
Print Assumptions C19_unchecked_huge_nice_len_refuted.

Theorem C19_unchecked_delta0_refuted :
  xz_delta_prop true 0 = Panic P_OVERFLOW /\
  xz_delta_prop false 0 = Ok 255 /\ xz_reader_delta_distance 255 = delta_effective_distance 0.
Proof. exact unchecked_delta0_refuted. Qed.
Print Assumptions C19_unchecked_delta0_refuted.

Theorem C19_unchecked_bcj_offset_refuted : xz_reader_bcj_check FARM 2 = Err E_INVALID_DATA.
Proof. exact unchecked_bcj_offset_refuted. Qed.
Print Assumptions C19_unchecked_bcj_offset_refuted.

Theorem C19_witnesses_rejected :
  validate false (wit 65536 3 0 5 32) = Err E_INVALID_INPUT /\ validate false (wit 65536 9 0 2 32) = Err E_INVALID_INPUT /\
  validate true (wit 65536 4 1 2 32) = Err E_INVALID_INPUT /\ validate false (wit 65536 4294967295 0 2 32) = Err E_INVALID_INPUT /\
  validate false (wit 0 3 0 2 32) = Err E_INVALID_INPUT /\ validate false (wit 65536 3 0 2 0) = Err E_INVALID_INPUT /\
  validate false (wit 65536 3 0 2 2) = Err E_INVALID_INPUT /\ validate false (wit 65536 3 0 2 4294967295) = Err E_INVALID_INPUT /\
  validate_pre_filter {| f_kind := FDelta; f_prop := 0 |} = Err E_INVALID_INPUT /\
  validate_pre_filter {| f_kind := FARM; f_prop := 2 |} = Err E_INVALID_INPUT.
Proof. exact witnesses_rejected. Qed.
Print Assumptions C19_witnesses_rejected.

(* ---- non-vacuity ---------------------------------------------------------------------------- *)
Definition ex_opts : lzma_opts :=
  {| o_dict := 8388608; o_lc := 3; o_lp := 0; o_pb := 2; o_mode := Normal; o_mf := BT4; o_nice := 64; o_depth := 0; o_preset := None |}.
Example C19_example_in :
  opts_ok WXz ex_opts [{| f_kind := FX86; f_prop := 0 |}; {| f_kind := FDelta; f_prop := 4 |}] = true /\
  opts_ok WLzma2 ex_opts [] = true /\ opts_ok WLzip ex_opts [] = true /\ opts_ok WLzmaHeader ex_opts [] = true /\
  writer_outcome true WXz ex_opts [{| f_kind := FX86; f_prop := 0 |}; {| f_kind := FDelta; f_prop := 4 |}] 100 = ObsOk.
Proof. vm_compute. repeat split; reflexivity. Qed.

Example C19_example_out :
  opts_ok WLzma2 (wit 65536 4 1 2 32) [] = false /\
  writer_outcome true WLzma2 (wit 65536 4 1 2 32) [] 100 = ObsErr E_INVALID_INPUT SWrite /\
  writer_outcome true WLzma2 (wit 65536 4 1 2 32) [] 0 = ObsErr E_INVALID_INPUT SFinish /\
  writer_outcome true WLzmaRaw (wit 65536 4 1 2 32) [] 100 = ObsOk /\
  writer_outcome true WXz (wit 65536 3 0 2 32) [{| f_kind := FARM; f_prop := 2 |}] 100 = ObsErr E_INVALID_INPUT SNew /\
  writer_outcome true WLzip (wit 0 9 9 9 32) [] 100 = ObsOk.
Proof. vm_compute. repeat split; reflexivity. Qed.
