(* Properties/C08.v — multi-threaded readers and writers are equivalent to the single-threaded ones
   (protocol part; the unit-cutting part is at the end).  Also the schedule-independence clause of
   C13.  Only theorem statements, each closed by [exact] of a lemma proved in Mt/*Proofs.v.

   The model (Mt/Protocol.v): coordinator + N workers + work queue (mutex, condvar, closed flag) +
   mpsc channel + error_store + shutdown flag + active-worker counter, one visible operation per
   step, for LZMA2ReaderMT / LZIPReaderMT (kind Reader) and LZMA2WriterMT / LZIPWriterMT (kind
   Writer).  [f : nat -> R + Z] is the worker's unit function (decode or encode of unit number q:
   a payload or an error kind), [src] what the source delivers, [p] what the caller does, and a
   state is [reachable] if some schedule (list of thread ids) leads to it from [init].
   All statements hold for EVERY configuration: worker count, pinned or repaired code. *)
From LzVerif Require Import Base.Bytes Mt.Protocol Mt.ProtocolLemmas Mt.ProtocolInv Mt.SafetyProofs Mt.Units Mt.UnitsProofs Mt.Refuted.
Local Open Scope nat_scope.

(* Whatever the schedule, the payloads handed to the caller (reader) / written to the sink (writer)
   so far are exactly the results of units 0 .. nr-1, in this order, all of them successes of the
   unit function — whichever worker finished first. *)
Theorem C08_mt_safety : forall (R : Type) (f : nat -> R + Z) c src p (s : state R),
  reachable f c src p s -> map inl (out s) = map f (seq 0 (nr s)) /\ nr s <= nd s.
Proof. exact @mt_safety. Qed.
Print Assumptions C08_mt_safety.

(* every unit is taken from the queue at most once, and only units that were dispatched *)
Theorem C08_mt_once : forall (R : Type) (f : nat -> R + Z) c src p (s : state R),
  reachable f c src p s -> NoDup (popped s) /\ forall q, In q (popped s) -> q < nd s + 1.
Proof. exact @mt_once. Qed.
Print Assumptions C08_mt_once.

(* every payload in flight carries the result of the unit whose sequence number it is tagged with *)
Theorem C08_mt_tagged : forall (R : Type) (f : nat -> R + Z) c src p (s : state R) q r,
  reachable f c src p s ->
  In (MRes q r) (ch s) \/ In (q, r) (reo s) \/ In (WSend q r) (ws s) -> f q = inl r.
Proof. exact @mt_tagged. Qed.
Print Assumptions C08_mt_tagged.

(* C13, schedule clause: two runs of the same kind of object over the same unit function — under
   different schedules, worker counts, even different caller programs — that have handed out the
   same number of units have handed out the same payloads. *)
Theorem C08_mt_output_schedule_free : forall (R : Type) (f : nat -> R + Z) c1 c2 src1 src2 p1 p2 (s1 s2 : state R),
  reachable f c1 src1 p1 s1 -> reachable f c2 src2 p2 s2 -> nr s1 = nr s2 -> out s1 = out s2.
Proof. exact @mt_output_schedule_free. Qed.
Print Assumptions C08_mt_output_schedule_free.

(* ---- unit cutting ---- *)
(* writers: the units are the consecutive [size]-byte pieces of the data, independent of how the
   data was split into write() calls *)
Theorem C08_cut_fixed_concat : forall size data, 0 < size -> concat (cut_fixed size data) = data.
Proof. exact cut_fixed_concat. Qed.
Print Assumptions C08_cut_fixed_concat.

Theorem C08_cut_writes_partition : forall size parts, 0 < size ->
  cut_writes size parts = cut_fixed size (concat parts).
Proof. exact cut_writes_partition. Qed.
Print Assumptions C08_cut_writes_partition.

(* LZMA2 reader: decoding the units one by one with a fresh decoder each and concatenating gives
   what one decoder gives on the whole chunk sequence, for every decoder whose state after a
   dictionary-reset chunk does not depend on the state before *)
Theorem C08_unit_cut_sound : forall (D : Type) (step : D -> chunk -> option (D * list Z)) (d0 : D),
  (forall d k, chunk_independent k = true -> step d k = step d0 k) ->
  forall chunks, decode_units D step d0 (cut_chunks chunks) = decode_chunks D step d0 chunks.
Proof. exact unit_cut_sound. Qed.
Print Assumptions C08_unit_cut_sound.

(* LZIP reader: for a file that is a concatenation of members (each at least header + trailer long,
   starting with the magic bytes, its member_size field holding its length) the backward scan over
   the trailers returns exactly the member table, in forward order *)
Theorem C08_lzip_scan_sound : forall ms : list (list Z),
  ms <> [] -> Forall wf_member ms -> scan_members (concat ms) = Ok (member_table 0 ms).
Proof. exact lzip_scan_sound. Qed.
Print Assumptions C08_lzip_scan_sound.

(* Non-vacuity: a reachable state of the repaired reader with two workers in which a result waits
   in the reorder map because an earlier unit is still being processed. *)
Example C08_out_of_order_example :
  exists sched (s : state Z),
    run_strict f_ok (fixed_cfg Reader 2 true) (init (fixed_cfg Reader 2 true)
                 [(true, SCont); (true, SEnd)] [OpRead; OpRead; OpRead]) sched = Some s /\
    length (ws s) = 2 /\ reo s = [(1, 1%Z)] /\ nr s = 0.
Proof.
  exists ([Co 0; Co 0; Co 0; Co 0; Co 0] ++ [Co 0; Co 0; Co 0; Co 0; Co 0] ++   (* unit 0 dispatched *)
          [Wk 0; Wk 0; Wk 0; Wk 0] ++                                           (* worker 0 holds unit 0 *)
          [Co 0; Co 0; Co 0; Co 0; Co 0] ++ [Co 0; Co 0; Co 0; Co 0; Co 0; Co 0] ++ (* unit 1, spawn *)
          [Wk 1; Wk 1; Wk 1; Wk 1; Wk 1] ++                                     (* worker 1 sends unit 1 *)
          [Co 0; Co 0; Co 0]).                                                  (* recv: out of order *)
  eexists. split; [vm_compute; reflexivity|vm_compute; auto].
Qed.
