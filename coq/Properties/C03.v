(* Properties/C03.v — interoperation with the reference implementation, XZ and LZIP containers
   (the .lzma and raw LZMA2 clauses are about the payload codecs, decided elsewhere).
   The reference stands behind Format/XzSpec.v: an independent, strict specification of the .xz
   and .lz file formats written from the format documents, itself tied to liblzma by the
   correspondence run of this check (same files - the crate's, liblzma's, damaged ones - through
   liblzma and through the specification: accept/reject and content must agree).
   Only theorem statements, each closed by [exact] of a lemma proved in Format/*Proofs.v. *)
From LzVerif Require Import Base.Bytes Format.XzFormat Format.LzipFormat Format.XzSpec Format.XzSpecExec
  Format.XzHeaderProofs Format.XzProofs Format.LzipProofs Format.XzSoundProofs Format.XzSpecProofs Format.LzipSpecProofs
  Format.ContainerRefutations Format.RoundTripExamples.

(* C03_out (XZ).  Every file the writer returns (legal options, any partition, any data, below
   16 GiB so that the 32-bit Backward Size field can hold the index size) is accepted by the format
   specification, which decodes it to the data written: in particular every Index Record equals the
   block's real Unpadded Size (header + compressed data + check) and Uncompressed Size, the
   Backward Size equals the real Index size, reserved bits are clear, multibyte integers minimal,
   LZMA2 is exactly the last filter, nothing follows the stream.  The specification's block decoder
   [sdec] is assumed to invert the writer's chain (C01 + C11 for the reference semantics). *)
Theorem C03_out_xz :
  forall (penc : Z -> list Z -> list Z) (fenc : fkind -> Z -> list Z -> list Z)
         (sdec : list sfilter -> list Z -> option (list Z * list Z)),
  (forall fs dict dd content tail, Forall filter_ok fs -> dict <= dd ->
     sdec (map spec_filter fs ++ [SLzma2 dd]) (penc dict (chain_enc fenc fs content) ++ tail) = Some (content, tail)) ->
  forall o0 parts f lenient, stream_ok o0 ->
    xz_encode penc fenc xz_fixed o0 parts = Ok f -> zlen f < 2 ^ 34 ->
    xz_spec_decode sdec lenient f = Some (concat parts).
Proof. exact C03_out_xz_thm. Qed.
Print Assumptions C03_out_xz.

(* F5: false on the code before the fix - the index record of every non-empty file omitted the
   block header size: the specification (and liblzma, xz -t) reject the file the crate's own reader
   accepts *)
Theorem C03_out_xz_refuted :
  exists f, xz_write xz_orig w_opts [w_content] [w_payload] = Ok f /\
            xz_decode_c xz_orig false f = Ok (w_content, []) /\
            xz_spec_decode_c true f = None.
Proof. exact xz_unpadded_size_refuted. Qed.
Print Assumptions C03_out_xz_refuted.

(* C03_out (LZIP): the file the writer returns is valid per the lzip specification, which decodes
   it to the data written, with no trailing data *)
Theorem C03_out_lzip :
  forall (penc : Z -> list Z -> list Z) (pdec : Z -> list Z -> outcome (list Z * list Z))
         (sdec1 : Z -> list Z -> option (list Z * list Z)),
  (forall d dd x tail, d <= dd -> sdec1 dd (penc d x ++ tail) = Some (x, tail)) ->
  (forall dd src r, sdec1 dd src = Some r -> pdec dd src = Ok r) ->
  (forall dd src x r, sdec1 dd src = Some (x, r) -> suffix r src) ->
  forall o0 parts f,
    bytes_ok (concat parts) = true ->
    (forall members, lz_members_of (lo_member_size (lzw_new o0)) parts = Ok members ->
                     lz_sizes_ok penc (lo_dict (lzw_new o0)) members) ->
    match lo_member_size o0 with Some m => 1 <= m | None => True end ->
    lz_encode penc o0 parts = Ok f ->
    lz_spec_decode sdec1 f = Some (concat parts, []).
Proof. exact C03_out_lzip_thm. Qed.
Print Assumptions C03_out_lzip.

(* C03_in (LZIP).  Every byte string the lzip specification accepts - any number of version-1
   members from any encoder, followed by nothing or by trailing data - is accepted by the crate's
   reader with the same data, provided the trailing data is not a proper prefix of the member magic
   at the very end of the input (lzip(1) and the crate call that a truncated member header;
   liblzma ignores it).  Hypotheses: the crate's LZMA decoder decodes what the specification's does,
   and decoding only consumes input. *)
Theorem C03_in_lzip :
  forall (penc : Z -> list Z -> list Z) (pdec : Z -> list Z -> outcome (list Z * list Z))
         (sdec1 : Z -> list Z -> option (list Z * list Z)),
  (forall d dd x tail, d <= dd -> sdec1 dd (penc d x ++ tail) = Some (x, tail)) ->
  (forall dd src r, sdec1 dd src = Some r -> pdec dd src = Ok r) ->
  (forall dd src x r, sdec1 dd src = Some (x, r) -> suffix r src) ->
  forall l d t, bytes_ok l = true ->
    lz_spec_decode sdec1 l = Some (d, t) ->
    (t = [] \/ lz_bytes_eqb (firstn 4 t) (firstn (length (firstn 4 t)) LZIP_MAGIC) = false) ->
    lz_decode pdec lz_fixed l = Ok (d, skipn 4 t).
Proof. exact C03_in_lzip_thm. Qed.
Print Assumptions C03_in_lzip.

(* C03_in (XZ) - PROVED in Properties/C03In.v (C03_in_xz, C03_in_xz_single, C03_in_xz_exec,
   C03_in_xz_exec_single); the comment below is the statement as it was planned.  Full statement:
     forall sdec blockdec, (forall fs src r, sdec (spec view of fs) src = Some r -> blockdec fs src = Ok r) ->
     forall f d, xz_spec_decode sdec false f = Some d -> xz_decode xz_check_bytes blockdec xz_fixed true f = Ok (d, [])
   (completeness of the reader for every file of the supported feature set: optional block header
   sizes, multi-block, all filters, all four checks, dictionary properties 0-40, concatenated
   streams).  What is established instead: (a) the instance for every file the crate's own writer
   produces (C02_xz composed with C03_out_xz); (b) by the correspondence run of this check: the
   specification agrees with liblzma on accept/reject and content for every file fed (the crate's,
   liblzma's single-threaded, FullFlush multi-block and multi-threaded encoders with size fields in
   the block headers, presets 0-9/extreme, custom lc/lp/pb/dict/nice/mf/mode/depth, delta chains,
   all checks, damaged variants), and the crate's reader - whose call-by-call model is compared on
   every such file - decodes every file liblzma accepts to the same bytes (oracle). *)

(* Non-vacuity / tie of the specification to concrete bytes: the specification accepts the file the
   repaired writer produces for "hello world" and a two-stream file with stream padding, rejects
   padding that is not a multiple of four and the historical writer's output. *)
Example C03_spec_instance :
  xz_spec_decode_c true w_hello = Some w_content /\
  xz_spec_decode_c true (w_hello ++ [0; 0; 0; 0] ++ w_hello) = Some (w_content ++ w_content) /\
  xz_spec_decode_c true (w_hello ++ [0; 0; 0]) = None.
Proof. split; [exact xz_unpadded_size_fixed|]. split; vm_compute; reflexivity. Qed.
