(* Properties/C07.v — results do not depend on how callers split writes, flushes and reads.
   Only theorem statements, each closed by [exact] of a lemma proved elsewhere.
   Writer half (this file, encoder window accounting) and the Delta filter; the reader half and the
   BCJ / XZ parts are stated by their own developments. *)
From LzVerif Require Import Base.Bytes Filter.Delta Filter.DeltaProofs Codec.EncWindow Codec.EncWindowProofs.

(* LZMAWriter (and LZIPWriter, which forwards its slices to one LZMAWriter per member) under EVERY
   call history (write partition with empty writes, flushes, the final finish), EVERY parser
   strategy and every option vector in range: the model run never panics (every buffer index it
   computes is inside the buffer) and never exhausts its fuel; every write() returns the length of
   its slice, or the whole slice is rejected by the declared-size check; the bytes accepted are
   the sum of the accepted slices; and when finish() succeeds the lengths of the coded symbols add
   up to exactly the bytes accepted: the content that is encoded is the concatenation of the
   slices, whatever the partition.  [l1_results] is a function of the history's slice LENGTHS and
   the declared size only.  (okor: the only other way a run ends is the parser oracle leaving its
   contract, Err 91.) *)
Theorem C07_lzma1_no_byte_lost : forall (PS : Type) (parse : PS -> Z -> Z -> strat PS) (ps0 : PS)
    normal bt4 dict nice preset expected ops,
  opts_ok dict nice ->
  (match preset with Some plen => 0 <= plen | None => True end) ->
  ops_ok ops ->
  (match preset with Some plen => Z.min plen dict | None => 0 end) + ops_total ops <= U32_MAX ->
  okor (do s <- l1_new PS normal bt4 dict nice preset expected ps0; l1_run PS parse s ops [])
       (fun r =>
          let '(s1, res) := r in
          let '(rs, c, fin) := l1_results expected 0 ops in
          res = rs /\ sum_fill (l1_tr _ s1) = c /\
          (fin = true -> sum_sym (l1_tr _ s1) = c /\ sum_abs (l1_tr _ s1) = 0)).
Proof. exact lzma1_run_exact. Qed.
Print Assumptions C07_lzma1_no_byte_lost.

(* LZMA2Writer (XZWriter forwards its slices to one LZMA2Writer per block) under EVERY call history
   with flushes, with or without chunk_size, EVERY parser strategy and range-coder oracle: no
   panic (every buffer index is inside the buffer, including the slices the uncompressed fallback
   copies out of the window — false for the two earlier history policies, see
   uncompressed_fallback_in_window_*_refuted in EncWindowProofs.v), the loops' fuel suffices, every
   write() returns the length of its slice, and when finish() succeeds every accepted byte is in
   exactly one chunk and the coded symbols plus the read-ahead bytes taken over by uncompressed
   chunks cover exactly the bytes accepted. *)
Theorem C07_lzma2_no_byte_lost : forall (PS : Type) (parse : PS -> Z -> Z -> strat PS) (chunkc : PS -> Z -> Z * PS) (ps0 : PS)
    normal bt4 dict nice preset chunk ops,
  opts_ok dict nice ->
  (match preset with Some plen => 0 <= plen | None => True end) ->
  ops_ok ops -> ops_total ops <= 4611686018427387904 ->
  okor (do s <- l2_new_repaired PS normal bt4 dict nice preset chunk ps0; l2_run PS parse chunkc s ops [])
       (fun r =>
          let '(s1, res) := r in
          let '(rs, c, fin) := l2_results 0 ops in
          res = rs /\ sum_fill (l2_tr _ s1) = c /\
          (fin = true -> sum_chunk (l2_tr _ s1) = c /\ sum_sym (l2_tr _ s1) + sum_abs (l2_tr _ s1) = c)).
Proof. exact lzma2_run_exact. Qed.
Print Assumptions C07_lzma2_no_byte_lost.

(* The uncompressed fallback of the two earlier window-history policies reads before the start of
   the buffer (model: Panic P_INDEX = the Rust slice-index panic in copy_uncompressed). *)
Theorem C07_uncompressed_fallback_old_refuted :
  l2_replay 2 false false 4096 273 None None old_mode_witness_ops old_mode_witness_ds = Panic P_INDEX.
Proof. exact uncompressed_fallback_in_window_old_refuted. Qed.
Print Assumptions C07_uncompressed_fallback_old_refuted.

Theorem C07_uncompressed_fallback_max_refuted :
  l2_replay 1 true false 4096 273 None None old_max_witness_ops old_max_witness_ds = Panic P_INDEX.
Proof. exact uncompressed_fallback_in_window_max_refuted. Qed.
Print Assumptions C07_uncompressed_fallback_max_refuted.

(* Before the repair "write() of a slice of 2 GiB or more panics in fill_window" the number of bytes
   fill_window copied for a 2^31-byte slice was the whole slice length, whatever room was left. *)
Theorem C07_fill_window_huge_slice_old_refuted :
  fill_len_old 655906 2147483648 = 2147483648 /\ 655906 < fill_len_old 655906 2147483648.
Proof. exact fill_window_huge_slice_old_refuted. Qed.
Print Assumptions C07_fill_window_huge_slice_old_refuted.

(* The debug assertion of process_pending_bytes in its original strict form fails in a reachable
   state (builds with debug assertions panicked there; repaired to <=, which the model asserts and
   process_pending_spec proves). *)
Theorem C07_process_pending_strict_assert_refuted :
  match enc_new false false 4096 0 32 with
  | Ok (p, _) =>
      let d := mkLzd 0 1 true 2 1 in
      match process_pending p d [] with
      | Ok (d1, _) => pending_assert_old (pending_size d) (pending_size d1) = false
      | _ => False
      end
  | _ => False
  end.
Proof. exact process_pending_strict_assert_refuted. Qed.
Print Assumptions C07_process_pending_strict_assert_refuted.

(* The .lzma clause of C18 (declared size): what every call returns is the function [l1_results]
   of the slice lengths and the declared size; a successful finish means declared = accepted =
   coded. *)
Theorem C07_lzma_expected_size : forall (PS : Type) (parse : PS -> Z -> Z -> strat PS) (ps0 : PS)
    normal bt4 dict nice ex ops,
  opts_ok dict nice -> ops_ok ops -> ops_total ops <= U32_MAX ->
  okor (do s <- l1_new PS normal bt4 dict nice None (Some ex) ps0; l1_run PS parse s ops [])
       (fun r =>
          let '(s1, res) := r in
          let '(rs, c, fin) := l1_results (Some ex) 0 ops in
          res = rs /\ sum_fill (l1_tr _ s1) = c /\
          (fin = true -> ex = c /\ sum_sym (l1_tr _ s1) = ex)).
Proof. exact lzma_expected_size. Qed.
Print Assumptions C07_lzma_expected_size.

(* DeltaWriter / DeltaReader: the output for a history of slices is the output for their
   concatenation (shared with C11). *)
Theorem C07_delta_write_partition : forall d parts,
  delta_write_calls d parts = delta_encode d (concat parts).
Proof. exact delta_write_partition. Qed.
Print Assumptions C07_delta_write_partition.

Theorem C07_delta_read_partition : forall d parts,
  delta_read_calls d parts = delta_decode d (concat parts).
Proof. exact delta_read_partition. Qed.
Print Assumptions C07_delta_read_partition.

(* Non-vacuity: a history with an empty write, a flush and a rejected write; the replayed parser
   decisions are those of a real run. *)
Example C07_lzma1_example :
  l1_replay false false 4096 32 None (Some 5) [WoWrite 0; WoWrite 3; WoFlush; WoWrite 4; WoWrite 2; WoFinish]
            [DSym 1 1 false; DSym 1 1 false; DSym 1 1 false; DSym 1 1 false]
  = Ok ([EvFill 3 3; EvFill 2 2; EvPos 0 5; EvSym 1 0;
         EvConsult 0 5 (-1); EvPos 1 4; EvSym 1 0; EvConsult 1 4 (-1); EvPos 2 0; EvSym 1 0;
         EvConsult 2 3 (-1); EvPos 3 0; EvSym 1 0; EvConsult 3 2 (-1); EvPos 4 0; EvSym 1 0; EvEnd],
        [RWrote 0; RWrote 3; RDone; RRej 2; RWrote 2; RDone], []).
Proof. vm_compute. reflexivity. Qed.
