(* Properties/C12.v — concatenated XZ streams and LZIP members decode to the concatenated data.
   Only theorem statements, each closed by [exact] of a lemma proved in Format/*Proofs.v.
   Models and conventions as in Properties/C02.v ([xz_fixed] includes the fixes of F16: inverted
   magic test, and of the unchecked stream padding at the end of the input). *)
From LzVerif Require Import Base.Bytes Format.XzFormat Format.LzipFormat Format.LzipDict
  Format.XzHeaderProofs Format.XzBlockHeaderProofs Format.XzProofs Format.LzipProofs
  Format.ContainerRefutations Format.RoundTripExamples.

(* xz_multi.  A file = one or more streams, each exactly as the writer produces it for some legal
   options / data / partition of its own (check types and options may differ from stream to stream,
   empty streams included: [st_ok]), each followed by stream padding of [st_pad] null bytes.  If every
   padding is a multiple of four bytes (0 included), the reader with multi-stream decoding enabled
   returns the concatenation of the contents and consumes the whole file. *)
Theorem C12_xz_multi :
  forall (penc : Z -> list Z -> list Z) (pdec : Z -> list Z -> outcome (list Z * list Z)),
  (forall d dd x tail, d <= dd -> pdec dd (penc d x ++ tail) = Ok (x, tail)) ->
  forall (fenc fdec : fkind -> Z -> list Z -> list Z),
  (forall k p x, fdec k p (fenc k p x) = x) ->
  forall (s : xzstream) (t : list xzstream),
    Forall (st_ok penc fenc) (s :: t) ->
    Forall (fun x => st_pad x mod 4 = 0) (s :: t) ->
    xz_decode xz_check_bytes (blockdec pdec fdec) xz_fixed true (xz_file (s :: t))
    = Ok (xz_content (s :: t), []).
Proof. exact xz_multi_thm. Qed.
Print Assumptions C12_xz_multi.

(* malformed padding is rejected: a padding whose length is not a multiple of four, at the end of
   the file or before a further stream; and any byte that is neither padding nor a stream start *)
Theorem C12_xz_bad_padding :
  forall (penc : Z -> list Z -> list Z) (pdec : Z -> list Z -> outcome (list Z * list Z)),
  (forall d dd x tail, d <= dd -> pdec dd (penc d x ++ tail) = Ok (x, tail)) ->
  forall (fenc fdec : fkind -> Z -> list Z -> list Z),
  (forall k p x, fdec k p (fenc k p x) = x) ->
  forall (s : xzstream) (rest : list Z),
    st_ok penc fenc s -> st_pad s mod 4 <> 0 ->
    (rest = [] \/ exists ct X, check_known ct = true /\ rest = xz_stream_header ct ++ X) ->
    xz_decode xz_check_bytes (blockdec pdec fdec) xz_fixed true (st_bytes s ++ rest) = Err E_INVALID_DATA.
Proof. exact xz_multi_bad_padding. Qed.
Print Assumptions C12_xz_bad_padding.

Theorem C12_xz_garbage_after_stream :
  forall (penc : Z -> list Z -> list Z) (pdec : Z -> list Z -> outcome (list Z * list Z)),
  (forall d dd x tail, d <= dd -> pdec dd (penc d x ++ tail) = Ok (x, tail)) ->
  forall (fenc fdec : fkind -> Z -> list Z -> list Z),
  (forall k p x, fdec k p (fenc k p x) = x) ->
  forall (s : xzstream) (b : Z) (X : list Z),
    st_ok penc fenc s -> b <> 0 -> b <> 253 ->
    xz_decode xz_check_bytes (blockdec pdec fdec) xz_fixed true (st_bytes s ++ b :: X) = Err E_INVALID_DATA.
Proof. exact xz_multi_garbage. Qed.
Print Assumptions C12_xz_garbage_after_stream.

(* with multi-stream decoding disabled the reader returns the first stream's content and leaves
   the source positioned at the first byte after that stream, whatever follows (also C16) *)
Theorem C12_xz_single_stream_stops :
  forall (penc : Z -> list Z -> list Z) (pdec : Z -> list Z -> outcome (list Z * list Z)),
  (forall d dd x tail, d <= dd -> pdec dd (penc d x ++ tail) = Ok (x, tail)) ->
  forall (fenc fdec : fkind -> Z -> list Z -> list Z),
  (forall k p x, fdec k p (fenc k p x) = x) ->
  forall o0 parts f rest, stream_ok o0 ->
    xz_encode penc fenc xz_fixed o0 parts = Ok f ->
    xz_decode xz_check_bytes (blockdec pdec fdec) xz_fixed false (f ++ rest) = Ok (concat parts, rest).
Proof. exact xz_single_stops. Qed.
Print Assumptions C12_xz_single_stream_stops.

(* F16: false on the code before the fix - two concatenated streams are rejected, and three null
   bytes of "padding" at the end of the input are accepted *)
Theorem C12_xz_concat_refuted : xz_decode_c xz_orig true (w_hello ++ w_hello) = Err E_INVALID_DATA.
Proof. exact xz_concat_refuted. Qed.
Print Assumptions C12_xz_concat_refuted.
Theorem C12_xz_trailing_padding_refuted : xz_decode_c xz_orig true (w_hello ++ [0; 0; 0]) = Ok (w_content, []).
Proof. exact xz_trailing_padding_refuted. Qed.
Print Assumptions C12_xz_trailing_padding_refuted.

(* lzip_multi.  A file = one or more members, each with its own header byte, dictionary and content
   ([lm_ok]: the header byte announces at least the dictionary in use, the content are bytes, fewer
   than 2^64 bytes); any such concatenation - members of one writer, or whole files appended to each
   other - decodes to the concatenation of the contents, wholly consumed. *)
Theorem C12_lzip_multi :
  forall (penc : Z -> list Z -> list Z) (pdec : Z -> list Z -> outcome (list Z * list Z)),
  (forall d dd x tail, d <= dd -> pdec dd (penc d x ++ tail) = Ok (x, tail)) ->
  forall (m : lzm) (ms : list lzm),
    Forall (lm_ok penc) (m :: ms) ->
    lz_decode pdec lz_fixed (lm_file penc (m :: ms)) = Ok (lm_data (m :: ms), []).
Proof. exact lzip_multi_thm. Qed.
Print Assumptions C12_lzip_multi.

(* trailing data (the tolerance the format defines): after at least one member, data whose first
   bytes are not (a prefix of) the member magic end the stream; up to four of them are read *)
Theorem C12_lzip_trailing_data :
  forall (penc : Z -> list Z -> list Z) (pdec : Z -> list Z -> outcome (list Z * list Z)),
  (forall d dd x tail, d <= dd -> pdec dd (penc d x ++ tail) = Ok (x, tail)) ->
  forall (m : lzm) (ms : list lzm) (t : list Z),
    Forall (lm_ok penc) (m :: ms) -> t <> [] ->
    lz_bytes_eqb (firstn 4 t) (firstn (length (firstn 4 t)) LZIP_MAGIC) = false ->
    lz_decode pdec lz_fixed (lm_file penc (m :: ms) ++ t) = Ok (lm_data (m :: ms), skipn 4 t).
Proof. exact lzip_trailing_thm. Qed.
Print Assumptions C12_lzip_trailing_data.

(* Non-vacuity: two real streams (CRC32, stored LZMA2 chunk) with four null bytes between them,
   decoded by the reader model with the LZMA2 decoder model as payload decoder. *)
Example C12_xz_instance :
  xz_decode_c xz_fixed true (w_hello ++ [0; 0; 0; 0] ++ w_hello) = Ok (w_content ++ w_content, []) /\
  xz_decode_c xz_fixed true (w_hello ++ [0; 0; 0]) = Err E_INVALID_DATA /\
  xz_decode_c xz_fixed false (w_hello ++ [0; 0; 0] ++ w_hello) = Ok (w_content, [0; 0; 0] ++ w_hello).
Proof. split; [exact xz_concat_fixed|]. split; [exact xz_trailing_padding_fixed|]. vm_compute. reflexivity. Qed.
Example C12_lzip_instance :
  Forall (lm_ok toy_penc) [mkLzm 12 4096 [1; 2; 3]; mkLzm 205 5000 []; mkLzm 12 4096 [4]] /\
  lz_decode toy_pdec lz_fixed (lm_file toy_penc [mkLzm 12 4096 [1; 2; 3]; mkLzm 205 5000 []; mkLzm 12 4096 [4]])
  = Ok ([1; 2; 3; 4], []).
Proof.
  split; [|vm_compute; reflexivity].
  repeat (apply Forall_cons; [unfold lm_ok; cbn [lm_byte lm_dict lm_content];
    split; [eexists; split; [vm_compute; reflexivity | vm_compute; congruence]|];
    split; [reflexivity|]; split; vm_compute; reflexivity|]).
  apply Forall_nil.
Qed.
