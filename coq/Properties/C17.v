(* Properties/C17.v — memory estimators are sound and tight, memory limits are enforced before
   allocating.  Only theorem statements, each closed by [exact] of a lemma proved in
   Arith/MemUsageProofs.v.  Models: Arith/MemUsage.v (estimators with explicit u32 wrap / Panic in
   both build profiles [ck]; allocation models = bytes requested from the global allocator). *)
From LzVerif Require Import Base.Bytes Arith.MemUsage Arith.MemUsageProofs.

(* ---- encoder: LZMAOptions::get_memory_usage (after /repo 813fe55, 2f495eb) ------------------ *)

(* no u32 overflow anywhere in the estimator over the documented option range: both build
   profiles return the same value, never Panic *)
Theorem C17_enc_estimate_no_overflow : forall k p, enc_params_ok k p = true ->
  exists e, (forall ck, enc_estimate ck p = Ok e) /\ 0 <= e < U32.
Proof. exact enc_estimate_no_overflow. Qed.
Print Assumptions C17_enc_estimate_no_overflow.

(* alloc <= 1024 * estimate, for LZMAWriter and LZMA2Writer, every dictionary size 4 KiB..768 MiB,
   lc/lp/pb, both modes, both match finders, every nice_len *)
Theorem C17_enc_estimate_sound : forall k p ck, enc_params_ok k p = true ->
  exists e, enc_estimate ck p = Ok e /\ enc_alloc k p <= 1024 * e.
Proof. exact enc_estimate_sound. Qed.
Print Assumptions C17_enc_estimate_sound.

(* 1024 * estimate <= 1 * alloc + 320 KiB *)
Theorem C17_enc_estimate_tight : forall k p ck, enc_params_ok k p = true ->
  exists e, enc_estimate ck p = Ok e /\ 1024 * e <= enc_alloc k p + ENC_TIGHT_C.
Proof. exact enc_estimate_tight. Qed.
Print Assumptions C17_enc_estimate_tight.

(* ... hence within a factor 2 of the real allocation *)
Theorem C17_enc_estimate_factor2 : forall k p ck, enc_params_ok k p = true ->
  exists e, enc_estimate ck p = Ok e /\ 1024 * e <= 2 * enc_alloc k p.
Proof. exact enc_estimate_factor2. Qed.
Print Assumptions C17_enc_estimate_factor2.

(* ---- decoder: lzma_get_memory_usage / lzma_get_memory_usage_by_props ------------------------ *)
Theorem C17_dec_estimate_no_overflow : forall d lc lp, 0 <= d <= DICT_SIZE_MAX -> 0 <= lc <= 8 -> 0 <= lp <= 4 ->
  exists e, (forall ck, dec_estimate ck d lc lp = Ok e) /\ 0 <= e < U32 /\
            exists ds, lzma_dict_size d = Ok ds /\ e = 10 + ds / 1024 + literal_bytes (lc + lp) / 1024.
Proof. exact dec_estimate_no_overflow. Qed.
Print Assumptions C17_dec_estimate_no_overflow.

Theorem C17_dec_estimate_sound : forall d lc lp us ck,
  0 <= d <= DICT_SIZE_MAX -> 0 <= lc <= 8 -> 0 <= lp <= 4 -> 0 <= us ->
  exists e a, dec_estimate ck d lc lp = Ok e /\ dec_peak d lc lp us = Ok a /\ a <= 1024 * e.
Proof. exact dec_estimate_sound. Qed.
Print Assumptions C17_dec_estimate_sound.

(* tight when the declared uncompressed size [us] does not let the reader shrink its window *)
Theorem C17_dec_estimate_tight : forall d lc lp us ck,
  0 <= d <= DICT_SIZE_MAX -> 0 <= lc <= 8 -> 0 <= lp <= 4 -> Z.max d 4096 + 15 <= us ->
  exists e a, dec_estimate ck d lc lp = Ok e /\ dec_peak d lc lp us = Ok a /\ 1024 * e <= a + DEC_TIGHT_C.
Proof. exact dec_estimate_tight. Qed.
Print Assumptions C17_dec_estimate_tight.

Theorem C17_dec_estimate_by_props_spec : forall ck d props, 0 <= d <= DICT_SIZE_MAX -> 0 <= props <= 224 ->
  let pr := props mod 45 in
  dec_estimate_by_props ck d props = dec_estimate ck d (pr - pr / 9 * 9) (pr / 9) /\
  0 <= pr - pr / 9 * 9 <= 8 /\ 0 <= pr / 9 <= 4.
Proof. exact dec_estimate_by_props_spec. Qed.
Print Assumptions C17_dec_estimate_by_props_spec.

(* ---- decoder: lzma2_get_memory_usage (after /repo 009e680, 525e235): EVERY u32 argument ------ *)
Theorem C17_dec2_estimate_no_overflow : forall d, 0 <= d < U32 ->
  exists e, (forall ck, dec2_estimate ck d = Ok e) /\ 0 <= e < U32 /\
            exists ds, lzma2_dict_size_gen false false d = Ok ds /\ e = 104 + ds / 1024 /\
                       Z.max 4096 (Z.min d DICT_SIZE_MAX) <= ds <= Z.max 4096 (Z.min d DICT_SIZE_MAX) + 15.
Proof. exact dec2_estimate_no_overflow. Qed.
Print Assumptions C17_dec2_estimate_no_overflow.

Theorem C17_dec2_estimate_sound : forall d lclp nprops ck, 0 <= d < U32 -> 0 <= lclp <= 4 ->
  exists e a, dec2_estimate ck d = Ok e /\ dec2_alloc d lclp nprops = Ok a /\ a <= 1024 * e.
Proof. exact dec2_estimate_sound. Qed.
Print Assumptions C17_dec2_estimate_sound.

Theorem C17_dec2_estimate_tight : forall d lclp nprops ck, 0 <= d < U32 -> 0 <= lclp <= 4 ->
  exists e a, dec2_estimate ck d = Ok e /\ dec2_alloc d lclp nprops = Ok a /\ 1024 * e <= a + DEC2_TIGHT_C.
Proof. exact dec2_estimate_tight. Qed.
Print Assumptions C17_dec2_estimate_tight.

(* ---- LZMAReader::new_mem_limit -------------------------------------------------------------- *)
(* need > limit -> Err(OutOfMemory) and the allocation trace is empty *)
Theorem C17_mem_limit_enforced : forall ck props d us limit rest need,
  dec_estimate_by_props ck d props = Ok need -> limit < need ->
  new_mem_limit ck props d us limit rest = {| tr_allocs := []; tr_result := Err E_OUT_OF_MEMORY |}.
Proof. exact mem_limit_enforced. Qed.
Print Assumptions C17_mem_limit_enforced.

(* every check precedes every allocation step: a call that does not succeed has allocated nothing *)
Theorem C17_mem_limit_check_precedes_allocation : forall ck props d us limit rest,
  (forall u, tr_result (new_mem_limit ck props d us limit rest) <> Ok u) ->
  tr_allocs (new_mem_limit ck props d us limit rest) = [].
Proof. exact mem_limit_check_precedes_allocation. Qed.
Print Assumptions C17_mem_limit_check_precedes_allocation.

(* a call that succeeds has allocated at most the need, which is at most the limit *)
Theorem C17_mem_limit_success_within_limit : forall ck props d us limit rest,
  0 <= d < U32 -> 0 <= props < 256 -> 0 <= us ->
  tr_result (new_mem_limit ck props d us limit rest) = Ok tt ->
  exists need, dec_estimate_by_props ck d props = Ok need /\ need <= limit /\
               sumZ (tr_allocs (new_mem_limit ck props d us limit rest)) <= 1024 * need.
Proof. exact mem_limit_success_within_limit. Qed.
Print Assumptions C17_mem_limit_success_within_limit.

(* ---- the code before the fixes is refuted; one configuration stays a known finding ----------- *)
(* F19: LZMAOptions::with_preset(6).get_memory_usage() = 12 935 868 "KiB" for 97 283 913 bytes *)
Theorem C17_enc_estimate_old_refuted :
  exists p e, enc_params_ok KLzma2 p = true /\ enc_estimate_old true p = Ok e /\
              enc_estimate_old false p = Ok e /\ e = 12935868 /\ enc_alloc KLzma2 p = 97283913 /\
              ~ (1024 * e <= 100 * enc_alloc KLzma2 p + ENC_TIGHT_C).
Proof. exact enc_estimate_old_refuted. Qed.
Print Assumptions C17_enc_estimate_old_refuted.

(* the literal tables must be part of the figure (a pure port of XZ for Java's expression is unsound for LZMAWriter) *)
Theorem C17_enc_estimate_without_literal_term_refuted :
  exists p, enc_params_ok KLzma p = true /\ 1024 * enc_estimate_java_like p < enc_alloc KLzma p.
Proof. exact enc_estimate_without_literal_term_refuted. Qed.
Print Assumptions C17_enc_estimate_without_literal_term_refuted.

(* F12 + transient double literal tables of LZMA2Reader::decode_props *)
Theorem C17_dec2_estimate_old_refuted :
  dec2_estimate_old true 4294967295 = Panic P_OVERFLOW /\
  dec2_estimate_old false 4294967295 = Ok 104 /\
  (exists e a, dec2_estimate_old true 4096 = Ok e /\ dec2_alloc_old 4096 4 2 = Ok a /\ 1024 * e < a).
Proof. exact dec2_estimate_old_refuted. Qed.
Print Assumptions C17_dec2_estimate_old_refuted.

(* known finding C17/lzma2-chunk-restart: LZMA2Writer with chunk_size holds two encoders at a
   restart; witness of the class that C17_enc_estimate_sound excludes (it speaks about a writer
   without restart: enc_alloc, not enc_alloc_restart) *)
Theorem C17_enc_restart_exceeds_estimate :
  exists p e, enc_params_ok KLzma2 p = true /\ enc_estimate true p = Ok e /\ 1024 * e < enc_alloc_restart p.
Proof. exact enc_restart_exceeds_estimate. Qed.
Print Assumptions C17_enc_restart_exceeds_estimate.

(* ---- non-vacuity ---------------------------------------------------------------------------- *)
Example C17_example_preset6 :
  let p := {| ep_dict := 8388608; ep_lc := 3; ep_lp := 0; ep_pb := 2; ep_mode := Normal; ep_mf := BT4; ep_nice := 64 |} in
  enc_params_ok KLzma2 p = true /\ enc_estimate true p = Ok 95174 /\ enc_alloc KLzma2 p = 97283913.
Proof. vm_compute. repeat split; reflexivity. Qed.

Example C17_example_dec :
  dec_estimate true 8388608 3 0 = Ok 8214 /\ dec_peak 8388608 3 0 (2 ^ 64 - 1) = Ok 8400957 /\
  dec2_estimate true 4294967295 = Ok 4194407 /\ dec2_alloc 4096 4 2 = Ok 94203.
Proof. vm_compute. repeat split; reflexivity. Qed.

Example C17_example_mem_limit :
  dec_estimate_by_props true 8388608 93 = Ok 8214 /\
  new_mem_limit true 93 8388608 (2 ^ 64 - 1) 8213 [0; 0; 0; 0; 0] = {| tr_allocs := []; tr_result := Err E_OUT_OF_MEMORY |} /\
  new_mem_limit true 93 8388608 (2 ^ 64 - 1) 8214 [0; 0; 0; 0; 0] = {| tr_allocs := [8388608; 12288]; tr_result := Ok tt |}.
Proof. vm_compute. repeat split; reflexivity. Qed.
