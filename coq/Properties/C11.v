(* Properties/C11.v — BCJ, Delta and BCJ2 filters are exact inverses and match the reference.
   Only theorem statements, each closed by [exact] of a lemma proved elsewhere. *)
From LzVerif Require Import Base.Bytes Filter.Delta Filter.DeltaProofs.

(* Delta: for EVERY distance value (the whole usize range, in or out of 1..256) and every byte
   string, the encoder does not panic, keeps the length, and the decoder returns the input. *)
Theorem C11_delta_inverse : forall dist l,
  bytes_ok l = true ->
  exists o, delta_encode_bytes dist l = Some o /\ delta_decode_bytes dist o = Some l /\
            length o = length l.
Proof. exact delta_inverse. Qed.
Print Assumptions C11_delta_inverse.

(* Delta matches the reference semantics of the format: out[i] = in[i] - in[i - dist]. *)
Theorem C11_delta_matches_reference : forall dist l,
  1 <= dist <= 256 -> bytes_ok l = true ->
  delta_encode_bytes dist l = Some (delta_spec_enc dist [] l).
Proof. exact delta_refines_spec. Qed.
Print Assumptions C11_delta_matches_reference.

(* The result does not depend on how the data reaches the filter (C07 shares these). *)
Theorem C11_delta_write_partition : forall d parts,
  delta_write_calls d parts = delta_encode d (concat parts).
Proof. exact delta_write_partition. Qed.
Print Assumptions C11_delta_write_partition.

Theorem C11_delta_read_partition : forall d parts,
  delta_read_calls d parts = delta_decode d (concat parts).
Proof. exact delta_read_partition. Qed.
Print Assumptions C11_delta_read_partition.

(* Non-vacuity: a concrete non-trivial instance. *)
Example C11_delta_example :
  delta_encode_bytes 2 [10; 20; 30; 25; 5] = Some [10; 20; 20; 5; 231] /\
  delta_decode_bytes 2 [10; 20; 20; 5; 231] = Some [10; 20; 30; 25; 5].
Proof. vm_compute. split; reflexivity. Qed.
