(* Properties/C11.v — BCJ, Delta and BCJ2 filters are exact inverses and match the reference.
   Only theorem statements, each closed by [exact] of a lemma proved elsewhere. *)
From LzVerif Require Import Base.Bytes Filter.Delta Filter.DeltaProofs.
From LzVerif Require Import Filter.Bcj Filter.BcjStream Filter.BcjDefects Filter.BcjCodeProofs
  Filter.BcjStreamProofs Filter.BcjIa64Proofs Filter.BcjX86InvProofs Filter.BcjRiscvInvProofs Filter.BcjAllProofs
  Filter.BcjDefectsProofs.

(* Delta: for EVERY distance value (the whole usize range, in or out of 1..256) and every byte
   string, the encoder does not panic, keeps the length, and the decoder returns the input. *)
Theorem C11_delta_inverse : forall dist l,
  bytes_ok l = true ->
  exists o, delta_encode_bytes dist l = Some o /\ delta_decode_bytes dist o = Some l /\
            length o = length l.
Proof. exact delta_inverse. Qed.
Print Assumptions C11_delta_inverse.

(* Delta matches the reference semantics of the format: out[i] = in[i] - in[i - dist]. *)
Theorem C11_delta_matches_reference : forall dist l,
  1 <= dist <= 256 -> bytes_ok l = true ->
  delta_encode_bytes dist l = Some (delta_spec_enc dist [] l).
Proof. exact delta_refines_spec. Qed.
Print Assumptions C11_delta_matches_reference.

(* The result does not depend on how the data reaches the filter (C07 shares these). *)
Theorem C11_delta_write_partition : forall d parts,
  delta_write_calls d parts = delta_encode d (concat parts).
Proof. exact delta_write_partition. Qed.
Print Assumptions C11_delta_write_partition.

Theorem C11_delta_read_partition : forall d parts,
  delta_read_calls d parts = delta_decode d (concat parts).
Proof. exact delta_read_partition. Qed.
Print Assumptions C11_delta_read_partition.

(* Non-vacuity: a concrete non-trivial instance. *)
Example C11_delta_example :
  delta_encode_bytes 2 [10; 20; 30; 25; 5] = Some [10; 20; 20; 5; 231] /\
  delta_decode_bytes 2 [10; 20; 20; 5; 231] = Some [10; 20; 30; 25; 5].
Proof. vm_compute. split; reflexivity. Qed.

(* ============================================================================================ *)
(* BCJ.  Models: Filter/Bcj.v (the eight `code` functions, after repo-patches/11), Filter/BcjStream.v
   (BCJReader::read after repo-patches/13, BCJWriter::write).  [bcj_code a enc st buf] returns the
   new filter state, the converted prefix and the untouched rest of the buffer. *)

(* ---- exact inverses, word-aligned architectures ----
   For EVERY start offset that is a multiple of the architecture's alignment (any Z: the
   constructor wraps at 2^64 like the repaired code) and every byte buffer: the encoder does not
   fail; the decoder applied to the encoder's output buffer (converted prefix ++ untouched rest)
   processes the same length, ends in the same filter state and gives the buffer back. *)
Theorem C11_bcj_inverse_arm : forall start buf, start mod 4 = 0 -> bytes_ok buf = true ->
  exists st' out rest,
    bcj_code ARM true (bcj_init ARM start) buf = Ok (st', out, rest) /\
    bcj_code ARM false (bcj_init ARM start) (out ++ rest) = Ok (st', firstn (length out) buf, rest) /\
    firstn (length out) buf ++ rest = buf /\ bytes_ok out = true.
Proof. exact bcj_inverse_arm. Qed.
Print Assumptions C11_bcj_inverse_arm.

Theorem C11_bcj_inverse_armthumb : forall start buf, start mod 2 = 0 -> bytes_ok buf = true ->
  exists st' out rest,
    bcj_code ARMT true (bcj_init ARMT start) buf = Ok (st', out, rest) /\
    bcj_code ARMT false (bcj_init ARMT start) (out ++ rest) = Ok (st', firstn (length out) buf, rest) /\
    firstn (length out) buf ++ rest = buf /\ bytes_ok out = true.
Proof. exact bcj_inverse_armthumb. Qed.
Print Assumptions C11_bcj_inverse_armthumb.

Theorem C11_bcj_inverse_arm64 : forall start buf, start mod 4 = 0 -> bytes_ok buf = true ->
  exists st' out rest,
    bcj_code ARM64 true (bcj_init ARM64 start) buf = Ok (st', out, rest) /\
    bcj_code ARM64 false (bcj_init ARM64 start) (out ++ rest) = Ok (st', firstn (length out) buf, rest) /\
    firstn (length out) buf ++ rest = buf /\ bytes_ok out = true.
Proof. exact bcj_inverse_arm64. Qed.
Print Assumptions C11_bcj_inverse_arm64.

Theorem C11_bcj_inverse_ppc : forall start buf, start mod 4 = 0 -> bytes_ok buf = true ->
  exists st' out rest,
    bcj_code PPC true (bcj_init PPC start) buf = Ok (st', out, rest) /\
    bcj_code PPC false (bcj_init PPC start) (out ++ rest) = Ok (st', firstn (length out) buf, rest) /\
    firstn (length out) buf ++ rest = buf /\ bytes_ok out = true.
Proof. exact bcj_inverse_ppc. Qed.
Print Assumptions C11_bcj_inverse_ppc.

Theorem C11_bcj_inverse_sparc : forall start buf, start mod 4 = 0 -> bytes_ok buf = true ->
  exists st' out rest,
    bcj_code SPARC true (bcj_init SPARC start) buf = Ok (st', out, rest) /\
    bcj_code SPARC false (bcj_init SPARC start) (out ++ rest) = Ok (st', firstn (length out) buf, rest) /\
    firstn (length out) buf ++ rest = buf /\ bytes_ok out = true.
Proof. exact bcj_inverse_sparc. Qed.
Print Assumptions C11_bcj_inverse_sparc.

(* IA-64: bundles of 16 bytes, three 41-bit slots; start offset a multiple of 16 *)
Theorem C11_bcj_inverse_ia64 : forall start buf, start mod 16 = 0 -> bytes_ok buf = true ->
  exists st' out rest,
    bcj_code IA64 true (bcj_init IA64 start) buf = Ok (st', out, rest) /\
    bcj_code IA64 false (bcj_init IA64 start) (out ++ rest) = Ok (st', firstn (length out) buf, rest) /\
    firstn (length out) buf ++ rest = buf /\ bytes_ok out = true.
Proof. exact bcj_inverse_ia64. Qed.
Print Assumptions C11_bcj_inverse_ia64.

(* x86: every start offset (alignment 1); the prev_mask automaton of the decoder, fed with the
   converted bytes, takes the encoder's decisions *)
Theorem C11_bcj_inverse_x86 : forall start buf, bytes_ok buf = true ->
  exists st' out rest,
    bcj_code X86 true (bcj_init X86 start) buf = Ok (st', out, rest) /\
    bcj_code X86 false (bcj_init X86 start) (out ++ rest) = Ok (st', firstn (length out) buf, rest) /\
    firstn (length out) buf ++ rest = buf /\ bytes_ok out = true.
Proof. exact bcj_inverse_x86. Qed.
Print Assumptions C11_bcj_inverse_x86.

(* RISC-V: start offset even; JAL, AUIPC pairs and the escape of AUIPC x0/x2 look-alikes *)
Theorem C11_bcj_inverse_riscv : forall start buf, start mod 2 = 0 -> bytes_ok buf = true ->
  exists st' out rest,
    bcj_code RISCV true (bcj_init RISCV start) buf = Ok (st', out, rest) /\
    bcj_code RISCV false (bcj_init RISCV start) (out ++ rest) = Ok (st', firstn (length out) buf, rest) /\
    firstn (length out) buf ++ rest = buf /\ bytes_ok out = true.
Proof. exact bcj_inverse_riscv. Qed.
Print Assumptions C11_bcj_inverse_riscv.

(* all eight at once ([bcj_align]: x86 1, ARM 4, ARM-Thumb 2, ARM64 4, PowerPC 4, SPARC 4, IA-64 16, RISC-V 2) *)
Theorem C11_bcj_inverse_all : forall a start buf, start mod bcj_align a = 0 -> bytes_ok buf = true ->
  exists st' out rest,
    bcj_code a true (bcj_init a start) buf = Ok (st', out, rest) /\
    bcj_code a false (bcj_init a start) (out ++ rest) = Ok (st', firstn (length out) buf, rest) /\
    firstn (length out) buf ++ rest = buf /\ bytes_ok out = true.
Proof. exact bcj_inverse_all. Qed.
Print Assumptions C11_bcj_inverse_all.

(* ---- the round trip through the I/O adapters, every architecture: one BCJWriter::write of the
   data, then BCJReader over ANY chunking of the filtered stream and ANY history of destination
   sizes (zeros included) that asks for enough bytes. ---- *)
Theorem C11_bcj_roundtrip : forall a start data, start mod bcj_align a = 0 -> bytes_ok data = true ->
  exists enc,
    bcj_enc_parts a start [data] = Ok enc /\ length enc = length data /\
    forall parts sizes, concat parts = enc -> Forall (fun n => 0 <= n) sizes ->
      Z.of_nat (length data) <= fold_right Z.add 0 sizes ->
      exists rs' inner',
        bcj_read_calls (bcj_read_fuel (data_script parts)) a (bcj_reader_new a start) (data_script parts) sizes =
          Ok (data, [], rs', inner').
Proof. exact bcj_roundtrip_all. Qed.
Print Assumptions C11_bcj_roundtrip.

(* ---- BCJReader, all eight architectures (shared with C07): the bytes delivered do not depend
   on the inner reader's chunking nor on the destination sizes; they are `code` applied to the
   whole stream with the unconvertible tail passed through; no call fails; a zero-length read
   changes nothing. ---- *)
Theorem C11_bcj_reader_any_sizes : forall a start parts sizes,
  bytes_ok (concat parts) = true -> Forall (fun n => 0 <= n) sizes ->
  exists F rs' inner',
    bcj_stream a false start (concat parts) = Ok F /\
    bcj_read_calls (bcj_read_fuel (data_script parts)) a (bcj_reader_new a start) (data_script parts) sizes =
      Ok (firstn (Z.to_nat (fold_right Z.add 0 sizes)) F, [], rs', inner').
Proof. exact bcj_reader_any_sizes. Qed.
Print Assumptions C11_bcj_reader_any_sizes.

Theorem C11_bcj_reader_zero_read : forall fuel a st inner, bcj_read fuel a st inner 0 = Ok ([], None, st, inner).
Proof. exact bcj_reader_zero_read. Qed.
Print Assumptions C11_bcj_reader_zero_read.

(* BCJReader over an inner reader that fails now and then (repaired by repo-patches/13), read by
   a loop with positive destination sizes that repeats a call failing with Interrupted: a prefix
   of the stream-level result is obtained; the loop ends normally only with the whole result; it
   ends with an error only with a non-transient error of the inner reader; if the inner reader
   only ever fails transiently the whole result is obtained. *)
Theorem C11_bcj_reader_retry : forall a start inner sizes,
  script_ok inner -> bytes_ok (script_data inner) = true -> Forall (fun s => 0 < s) sizes ->
  exists F out e,
    bcj_stream a false start (script_data inner) = Ok F /\
    bcj_dec_script a start inner sizes = Ok (out, e) /\
    (exists Y, F = out ++ Y) /\
    (e = None -> out = F) /\
    (forall c, e = Some c -> c <> E_INTERRUPTED /\ In c (script_errs inner)) /\
    (Forall (fun c => c = E_INTERRUPTED) (script_errs inner) -> e = None /\ out = F).
Proof. exact bcj_reader_retry. Qed.
Print Assumptions C11_bcj_reader_retry.

(* ---- BCJWriter under a partition of the data into write calls.  FALSE in general (known
   finding bcj-writer-midstream-tail): [C11_bcj_writer_partition_refuted] exhibits a two-call
   history whose output is neither the filtered stream nor decodable to the data, while the
   one-call history is fine.  TRUE outside the known class: if no write call leaves an unconverted
   tail while more data follows, the sink receives exactly the filtered stream. ---- *)
Theorem C11_bcj_writer_partition_refuted :
  exists a start parts,
    bytes_ok (concat parts) = true /\
    bcj_enc_parts a start parts <> bcj_stream a true start (concat parts) /\
    (exists out, bcj_enc_parts a start parts = Ok out /\ bcj_stream a false start out <> Ok (concat parts)) /\
    (exists out1, bcj_enc_parts a start [concat parts] = Ok out1 /\ bcj_stream a false start out1 = Ok (concat parts)) /\
    ~ no_midstream_tail a (bcj_init a start) parts.
Proof. exact bcj_writer_partition_refuted. Qed.
Print Assumptions C11_bcj_writer_partition_refuted.

Theorem C11_bcj_writer_partition_known : forall a start parts,
  bytes_ok (concat parts) = true -> no_midstream_tail a (bcj_init a start) parts ->
  exists F, bcj_stream a true start (concat parts) = Ok F /\ bcj_enc_parts a start parts = Ok F.
Proof. exact bcj_writer_partition_known. Qed.
Print Assumptions C11_bcj_writer_partition_known.

(* ---- repaired by repo-patches/11: the `+`/`-` of the original code panicked in builds with
   overflow checks (witness: start offset 0x7FFFFFEC, word C1 09 0F EB; start offset 2^64 - 4). ---- *)
Theorem C11_bcj_checked_add_refuted :
  exists start b0 b1 b2,
    start mod 4 = 0 /\ 0 <= start < 4294967296 /\
    arm_word_old true (start + 8) 0 b0 b1 b2 235 = Panic 1 /\
    (let '(c0, c1, c2, c3) := arm_word true (pc32 (start + 8) 0) b0 b1 b2 235 in
     arm_word false (pc32 (start + 8) 0) c0 c1 c2 c3 = (b0, b1, b2, 235)).
Proof. exact bcj_checked_add_refuted. Qed.
Print Assumptions C11_bcj_checked_add_refuted.

(* Non-vacuity: an aligned non-zero start offset near 2^31 and a buffer with a BL instruction, a
   chunked reader history with a zero-length read, a write history outside the known class. *)
Example C11_bcj_example :
  bcj_enc_parts ARM 2147483632 [[255; 255; 255; 235; 7]] = Ok [253; 255; 255; 235; 7] /\
  bcj_dec_script ARM 2147483632 [IData [253; 255]; IErr 8; IData [255; 235; 7]] [1; 3] = Ok ([255; 255; 255; 235; 7], None) /\
  no_midstream_tail ARM (bcj_init ARM 0) [[0; 0; 0; 235]; []; [1; 2; 3; 235; 9]].
Proof. split; [vm_compute; reflexivity|]. split; [vm_compute; reflexivity|]. vm_compute. auto. Qed.
