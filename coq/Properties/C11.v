(* Properties/C11.v — BCJ, Delta and BCJ2 filters are exact inverses and match the reference.
   Only theorem statements, each closed by [exact] of a lemma proved elsewhere. *)
From LzVerif Require Import Base.Bytes Filter.Delta Filter.DeltaProofs.
From LzVerif Require Import Filter.Bcj Filter.BcjStream Filter.BcjDefects Filter.BcjCodeProofs
  Filter.BcjStreamProofs Filter.BcjIa64Proofs Filter.BcjX86InvProofs Filter.BcjRiscvInvProofs Filter.BcjAllProofs
  Filter.BcjDefectsProofs.
From LzVerif Require Import Filter.Bcj2 Filter.Bcj2Enc Filter.Bcj2Defects Filter.Bcj2SpecProofs Filter.Bcj2ReaderProofs
  Filter.Bcj2DefectsProofs.

(* Delta: for EVERY distance value (the whole usize range, in or out of 1..256) and every byte
   string, the encoder does not panic, keeps the length, and the decoder returns the input. *)
Theorem C11_delta_inverse : forall dist l,
  bytes_ok l = true ->
  exists o, delta_encode_bytes dist l = Some o /\ delta_decode_bytes dist o = Some l /\
            length o = length l.
Proof. exact delta_inverse. Qed.
Print Assumptions C11_delta_inverse.

(* Delta matches the reference semantics of the format: out[i] = in[i] - in[i - dist]. *)
Theorem C11_delta_matches_reference : forall dist l,
  1 <= dist <= 256 -> bytes_ok l = true ->
  delta_encode_bytes dist l = Some (delta_spec_enc dist [] l).
Proof. exact delta_refines_spec. Qed.
Print Assumptions C11_delta_matches_reference.

(* The result does not depend on how the data reaches the filter (C07 shares these). *)
Theorem C11_delta_write_partition : forall d parts,
  delta_write_calls d parts = delta_encode d (concat parts).
Proof. exact delta_write_partition. Qed.
Print Assumptions C11_delta_write_partition.

Theorem C11_delta_read_partition : forall d parts,
  delta_read_calls d parts = delta_decode d (concat parts).
Proof. exact delta_read_partition. Qed.
Print Assumptions C11_delta_read_partition.

(* Non-vacuity: a concrete non-trivial instance. *)
Example C11_delta_example :
  delta_encode_bytes 2 [10; 20; 30; 25; 5] = Some [10; 20; 20; 5; 231] /\
  delta_decode_bytes 2 [10; 20; 20; 5; 231] = Some [10; 20; 30; 25; 5].
Proof. vm_compute. split; reflexivity. Qed.

(* ============================================================================================ *)
(* BCJ.  Models: Filter/Bcj.v (the eight `code` functions, after repo-patches/11), Filter/BcjStream.v
   (BCJReader::read after repo-patches/13, BCJWriter::write).  [bcj_code a enc st buf] returns the
   new filter state, the converted prefix and the untouched rest of the buffer. *)

(* ---- exact inverses, word-aligned architectures ----
   For EVERY start offset that is a multiple of the architecture's alignment (any Z: the
   constructor wraps at 2^64 like the repaired code) and every byte buffer: the encoder does not
   fail; the decoder applied to the encoder's output buffer (converted prefix ++ untouched rest)
   processes the same length, ends in the same filter state and gives the buffer back. *)
Theorem C11_bcj_inverse_arm : forall start buf, start mod 4 = 0 -> bytes_ok buf = true ->
  exists st' out rest,
    bcj_code ARM true (bcj_init ARM start) buf = Ok (st', out, rest) /\
    bcj_code ARM false (bcj_init ARM start) (out ++ rest) = Ok (st', firstn (length out) buf, rest) /\
    firstn (length out) buf ++ rest = buf /\ bytes_ok out = true.
Proof. exact bcj_inverse_arm. Qed.
Print Assumptions C11_bcj_inverse_arm.

Theorem C11_bcj_inverse_armthumb : forall start buf, start mod 2 = 0 -> bytes_ok buf = true ->
  exists st' out rest,
    bcj_code ARMT true (bcj_init ARMT start) buf = Ok (st', out, rest) /\
    bcj_code ARMT false (bcj_init ARMT start) (out ++ rest) = Ok (st', firstn (length out) buf, rest) /\
    firstn (length out) buf ++ rest = buf /\ bytes_ok out = true.
Proof. exact bcj_inverse_armthumb. Qed.
Print Assumptions C11_bcj_inverse_armthumb.

Theorem C11_bcj_inverse_arm64 : forall start buf, start mod 4 = 0 -> bytes_ok buf = true ->
  exists st' out rest,
    bcj_code ARM64 true (bcj_init ARM64 start) buf = Ok (st', out, rest) /\
    bcj_code ARM64 false (bcj_init ARM64 start) (out ++ rest) = Ok (st', firstn (length out) buf, rest) /\
    firstn (length out) buf ++ rest = buf /\ bytes_ok out = true.
Proof. exact bcj_inverse_arm64. Qed.
Print Assumptions C11_bcj_inverse_arm64.

Theorem C11_bcj_inverse_ppc : forall start buf, start mod 4 = 0 -> bytes_ok buf = true ->
  exists st' out rest,
    bcj_code PPC true (bcj_init PPC start) buf = Ok (st', out, rest) /\
    bcj_code PPC false (bcj_init PPC start) (out ++ rest) = Ok (st', firstn (length out) buf, rest) /\
    firstn (length out) buf ++ rest = buf /\ bytes_ok out = true.
Proof. exact bcj_inverse_ppc. Qed.
Print Assumptions C11_bcj_inverse_ppc.

Theorem C11_bcj_inverse_sparc : forall start buf, start mod 4 = 0 -> bytes_ok buf = true ->
  exists st' out rest,
    bcj_code SPARC true (bcj_init SPARC start) buf = Ok (st', out, rest) /\
    bcj_code SPARC false (bcj_init SPARC start) (out ++ rest) = Ok (st', firstn (length out) buf, rest) /\
    firstn (length out) buf ++ rest = buf /\ bytes_ok out = true.
Proof. exact bcj_inverse_sparc. Qed.
Print Assumptions C11_bcj_inverse_sparc.

(* IA-64: bundles of 16 bytes, three 41-bit slots; start offset a multiple of 16 *)
Theorem C11_bcj_inverse_ia64 : forall start buf, start mod 16 = 0 -> bytes_ok buf = true ->
  exists st' out rest,
    bcj_code IA64 true (bcj_init IA64 start) buf = Ok (st', out, rest) /\
    bcj_code IA64 false (bcj_init IA64 start) (out ++ rest) = Ok (st', firstn (length out) buf, rest) /\
    firstn (length out) buf ++ rest = buf /\ bytes_ok out = true.
Proof. exact bcj_inverse_ia64. Qed.
Print Assumptions C11_bcj_inverse_ia64.

(* x86: every start offset (alignment 1); the prev_mask automaton of the decoder, fed with the
   converted bytes, takes the encoder's decisions *)
Theorem C11_bcj_inverse_x86 : forall start buf, bytes_ok buf = true ->
  exists st' out rest,
    bcj_code X86 true (bcj_init X86 start) buf = Ok (st', out, rest) /\
    bcj_code X86 false (bcj_init X86 start) (out ++ rest) = Ok (st', firstn (length out) buf, rest) /\
    firstn (length out) buf ++ rest = buf /\ bytes_ok out = true.
Proof. exact bcj_inverse_x86. Qed.
Print Assumptions C11_bcj_inverse_x86.

(* RISC-V: start offset even; JAL, AUIPC pairs and the escape of AUIPC x0/x2 look-alikes *)
Theorem C11_bcj_inverse_riscv : forall start buf, start mod 2 = 0 -> bytes_ok buf = true ->
  exists st' out rest,
    bcj_code RISCV true (bcj_init RISCV start) buf = Ok (st', out, rest) /\
    bcj_code RISCV false (bcj_init RISCV start) (out ++ rest) = Ok (st', firstn (length out) buf, rest) /\
    firstn (length out) buf ++ rest = buf /\ bytes_ok out = true.
Proof. exact bcj_inverse_riscv. Qed.
Print Assumptions C11_bcj_inverse_riscv.

(* all eight at once ([bcj_align]: x86 1, ARM 4, ARM-Thumb 2, ARM64 4, PowerPC 4, SPARC 4, IA-64 16, RISC-V 2) *)
Theorem C11_bcj_inverse_all : forall a start buf, start mod bcj_align a = 0 -> bytes_ok buf = true ->
  exists st' out rest,
    bcj_code a true (bcj_init a start) buf = Ok (st', out, rest) /\
    bcj_code a false (bcj_init a start) (out ++ rest) = Ok (st', firstn (length out) buf, rest) /\
    firstn (length out) buf ++ rest = buf /\ bytes_ok out = true.
Proof. exact bcj_inverse_all. Qed.
Print Assumptions C11_bcj_inverse_all.

(* ---- the round trip through the I/O adapters, every architecture: one BCJWriter::write of the
   data, then BCJReader over ANY chunking of the filtered stream and ANY history of destination
   sizes (zeros included) that asks for enough bytes. ---- *)
Theorem C11_bcj_roundtrip : forall a start data, start mod bcj_align a = 0 -> bytes_ok data = true ->
  exists enc,
    bcj_enc_parts a start [data] = Ok enc /\ length enc = length data /\
    forall parts sizes, concat parts = enc -> Forall (fun n => 0 <= n) sizes ->
      Z.of_nat (length data) <= fold_right Z.add 0 sizes ->
      exists rs' inner',
        bcj_read_calls (bcj_read_fuel (data_script parts)) a (bcj_reader_new a start) (data_script parts) sizes =
          Ok (data, [], rs', inner').
Proof. exact bcj_roundtrip_all. Qed.
Print Assumptions C11_bcj_roundtrip.

(* ---- BCJReader, all eight architectures (shared with C07): the bytes delivered do not depend
   on the inner reader's chunking nor on the destination sizes; they are `code` applied to the
   whole stream with the unconvertible tail passed through; no call fails; a zero-length read
   changes nothing. ---- *)
Theorem C11_bcj_reader_any_sizes : forall a start parts sizes,
  bytes_ok (concat parts) = true -> Forall (fun n => 0 <= n) sizes ->
  exists F rs' inner',
    bcj_stream a false start (concat parts) = Ok F /\
    bcj_read_calls (bcj_read_fuel (data_script parts)) a (bcj_reader_new a start) (data_script parts) sizes =
      Ok (firstn (Z.to_nat (fold_right Z.add 0 sizes)) F, [], rs', inner').
Proof. exact bcj_reader_any_sizes. Qed.
Print Assumptions C11_bcj_reader_any_sizes.

Theorem C11_bcj_reader_zero_read : forall fuel a st inner, bcj_read fuel a st inner 0 = Ok ([], None, st, inner).
Proof. exact bcj_reader_zero_read. Qed.
Print Assumptions C11_bcj_reader_zero_read.

(* BCJReader over an inner reader that fails now and then (repaired by repo-patches/13), read by
   a loop with positive destination sizes that repeats a call failing with Interrupted: a prefix
   of the stream-level result is obtained; the loop ends normally only with the whole result; it
   ends with an error only with a non-transient error of the inner reader; if the inner reader
   only ever fails transiently the whole result is obtained. *)
Theorem C11_bcj_reader_retry : forall a start inner sizes,
  script_ok inner -> bytes_ok (script_data inner) = true -> Forall (fun s => 0 < s) sizes ->
  exists F out e,
    bcj_stream a false start (script_data inner) = Ok F /\
    bcj_dec_script a start inner sizes = Ok (out, e) /\
    (exists Y, F = out ++ Y) /\
    (e = None -> out = F) /\
    (forall c, e = Some c -> c <> E_INTERRUPTED /\ In c (script_errs inner)) /\
    (Forall (fun c => c = E_INTERRUPTED) (script_errs inner) -> e = None /\ out = F).
Proof. exact bcj_reader_retry. Qed.
Print Assumptions C11_bcj_reader_retry.

(* ---- BCJWriter under a partition of the data into write calls.  FALSE in general (known
   finding bcj-writer-midstream-tail): [C11_bcj_writer_partition_refuted] exhibits a two-call
   history whose output is neither the filtered stream nor decodable to the data, while the
   one-call history is fine.  TRUE outside the known class: if no write call leaves an unconverted
   tail while more data follows, the sink receives exactly the filtered stream. ---- *)
Theorem C11_bcj_writer_partition_refuted :
  exists a start parts,
    bytes_ok (concat parts) = true /\
    bcj_enc_parts a start parts <> bcj_stream a true start (concat parts) /\
    (exists out, bcj_enc_parts a start parts = Ok out /\ bcj_stream a false start out <> Ok (concat parts)) /\
    (exists out1, bcj_enc_parts a start [concat parts] = Ok out1 /\ bcj_stream a false start out1 = Ok (concat parts)) /\
    ~ no_midstream_tail a (bcj_init a start) parts.
Proof. exact bcj_writer_partition_refuted. Qed.
Print Assumptions C11_bcj_writer_partition_refuted.

Theorem C11_bcj_writer_partition_known : forall a start parts,
  bytes_ok (concat parts) = true -> no_midstream_tail a (bcj_init a start) parts ->
  exists F, bcj_stream a true start (concat parts) = Ok F /\ bcj_enc_parts a start parts = Ok F.
Proof. exact bcj_writer_partition_known. Qed.
Print Assumptions C11_bcj_writer_partition_known.

(* ---- repaired by repo-patches/11: the `+`/`-` of the original code panicked in builds with
   overflow checks (witness: start offset 0x7FFFFFEC, word C1 09 0F EB; start offset 2^64 - 4). ---- *)
Theorem C11_bcj_checked_add_refuted :
  exists start b0 b1 b2,
    start mod 4 = 0 /\ 0 <= start < 4294967296 /\
    arm_word_old true (start + 8) 0 b0 b1 b2 235 = Panic 1 /\
    (let '(c0, c1, c2, c3) := arm_word true (pc32 (start + 8) 0) b0 b1 b2 235 in
     arm_word false (pc32 (start + 8) 0) c0 c1 c2 c3 = (b0, b1, b2, 235)).
Proof. exact bcj_checked_add_refuted. Qed.
Print Assumptions C11_bcj_checked_add_refuted.

(* Non-vacuity: an aligned non-zero start offset near 2^31 and a buffer with a BL instruction, a
   chunked reader history with a zero-length read, a write history outside the known class. *)
Example C11_bcj_example :
  bcj_enc_parts ARM 2147483632 [[255; 255; 255; 235; 7]] = Ok [253; 255; 255; 235; 7] /\
  bcj_dec_script ARM 2147483632 [IData [253; 255]; IErr 8; IData [255; 235; 7]] [1; 3] = Ok ([255; 255; 255; 235; 7], None) /\
  no_midstream_tail ARM (bcj_init ARM 0) [[0; 0; 0; 235]; []; [1; 2; 3; 235; 9]].
Proof. split; [vm_compute; reflexivity|]. split; [vm_compute; reflexivity|]. vm_compute. auto. Qed.

(* ============================================================================================ *)
(* BCJ2.  Models: Filter/Bcj2.v (Bcj2Decoder::decode and BCJ2Reader::read, after repo-patches/15 and
   /16), Filter/Bcj2Enc.v (the format as a specification encoder: [bcj2_encode data ds] = the four
   streams MAIN, CALL, JUMP, RC of 7-Zip's Bcj2Enc for the data when the encoder's choices "convert
   this candidate or not" are the booleans [ds], one per E8 / E9 / 0F 8x candidate in stream order, a
   missing one = do not convert; a candidate with fewer than four bytes behind it is never converted).
   Every correctly encoded input is of that form for some [ds]. *)

(* ---- one-shot decode: for EVERY byte string shorter than 2^32 - 6 (the bound of the range
   coder's pending-byte counter in the specification encoder) and EVERY decision list, one call of
   decode() on a fresh decoder with the four complete streams in its buffers and room for all the
   output returns true, has stored exactly the data, and stops in state MAIN with code = 0 (the two
   checks BCJ2Reader makes at the end) and all four buffers used up.  The fuel of the model's loop is
   the one decode's model computes itself (2 + bytes in the MAIN buffer); no Panic / Fuel. ---- *)
Theorem C11_bcj2_decodes_spec : forall data ds,
  bytes_ok data = true -> Z.of_nat (length data) <= 4294967289 ->
  exists d',
    (let '(m, c, j, r) := bcj2_encode data ds in bcj2_decode_oneshot m c j r (zlen data)) = Ok (true, d', data) /\
    bd_state d' = BCJ2_STREAM_MAIN /\ bd_code d' = 0 /\
    sb_live (bd_main d') = [] /\ sb_live (bd_call d') = [] /\ sb_live (bd_jump d') = [] /\ sb_live (bd_rc d') = [].
Proof. exact bcj2_decodes_spec. Qed.
Print Assumptions C11_bcj2_decodes_spec.

(* ---- BCJ2Reader::read: ANY chunking of each of the four streams by its inner reader (pieces of
   any length: 1, 2, 3, 5, ... bytes for CALL/JUMP too; empty pieces are dropped) and ANY history of
   destination sizes (zeros included): the calls return the first (sum of sizes) bytes of the data —
   the bytes of the one-shot decode above —, none returns an error.  Fuel per call:
   2 + bytes still in the four scripts. ---- *)
Theorem C11_bcj2_reader_any_chunking : forall data ds pm pc pj pr sizes,
  bytes_ok data = true -> Z.of_nat (length data) <= 4294967289 ->
  (let '(m, c, j, r) := bcj2_encode data ds in concat pm = m /\ concat pc = c /\ concat pj = j /\ concat pr = r) ->
  Forall (fun n => 0 <= n) sizes ->
  let ins := (data_script pm, data_script pc, data_script pj, data_script pr) in
  exists r' ins',
    bcj2_read_calls (bcj2_read_fuel ins) (bcj2_reader_new (zlen data)) ins sizes =
      Ok (firstn (Z.to_nat (fold_right Z.add 0 sizes)) data, [], r', ins').
Proof. exact bcj2_reader_any_chunking. Qed.
Print Assumptions C11_bcj2_reader_any_chunking.

(* a zero-length read returns Ok(0) at once and changes nothing — in every reader state *)
Theorem C11_bcj2_reader_zero_read : forall fuel r ins, bcj2_read fuel r ins 0 = Ok ([], None, r, ins).
Proof. exact bcj2_reader_zero_read. Qed.
Print Assumptions C11_bcj2_reader_zero_read.

(* ---- repaired by repo-patches/16: the reader before it lost decoded bytes when an inner reader
   failed transiently (witness: five literal bytes, MAIN reader fails once with Interrupted after
   delivering them; the retrying caller gets nothing and a normal end of stream), and forgot the first
   bytes of a CALL word when the failure came between them and the rest (witness: InvalidData for a
   correct input).  [bcj2_dec_script_old] is the retry loop over the old read(). ---- *)
Theorem C11_bcj2_reader_interrupted_refuted :
  exists data ins sizes,
    (let '(m, c, j, r) := bcj2_encode data [] in
     fst (fst (fst ins)) = [IData m; IErr E_INTERRUPTED] /\ snd (fst (fst ins)) = data_script [c] /\
     snd (fst ins) = data_script [j] /\ snd ins = data_script [r]) /\
    bcj2_dec_script_old (zlen data) ins sizes = Ok ([], None) /\
    bcj2_dec_script (zlen data) ins sizes = Ok (data, None) /\ data <> [].
Proof. exact bcj2_reader_interrupted_drops_bytes_refuted. Qed.
Print Assumptions C11_bcj2_reader_interrupted_refuted.

Theorem C11_bcj2_reader_partial_word_refuted :
  exists data ds ins,
    (let '(m, c, j, r) := bcj2_encode data ds in
     fst (fst (fst ins)) = data_script [m] /\
     snd (fst (fst ins)) = [IData (firstn 2 c); IErr E_INTERRUPTED; IData (skipn 2 c)] /\
     snd (fst ins) = data_script [j] /\ snd ins = data_script [r]) /\
    bcj2_dec_script_old (zlen data) ins [] = Ok ([], Some E_INVALID_DATA) /\
    bcj2_dec_script (zlen data) ins [] = Ok (data, None).
Proof. exact bcj2_reader_partial_word_lost_refuted. Qed.
Print Assumptions C11_bcj2_reader_partial_word_refuted.

(* ---- repaired by repo-patches/15: `self.ip += ...` panicked in a build with overflow checks at
   the first byte behind 4 GiB of output; the model (and a release build) wraps. ---- *)
Theorem C11_bcj2_ip_checked_add_refuted :
  exists ip num, 0 <= ip < 4294967296 /\ 0 < num <= BUF_SIZE /\
    ip_add_checked ip num = Panic 2 /\ wrap32 (ip + wrap32 num) = 0.
Proof. exact bcj2_ip_checked_add_refuted. Qed.
Print Assumptions C11_bcj2_ip_checked_add_refuted.

(* Non-vacuity: 43 bytes with eight candidates (E8 twice, E9, 0F 85, 0F 8F, an E8 inside an operand
   that is not converted, an E8 with only two bytes behind it), decisions convert / keep / convert /
   convert / keep / convert / convert / (ignored); targets wrap around 2^32.  The four streams, the
   one-shot decode, and the reader over 1-, 2-, 3- and 5-byte pieces with destination sizes 3, 0, 5, 1
   and a transient failure in the CALL reader. *)
Definition c11_bcj2_data : list Z :=
  [85; 232; 252; 255; 255; 255; 232; 1; 2; 3; 4; 144; 233; 16; 0; 0; 128; 15; 133; 255; 255; 255; 127;
   232; 232; 9; 9; 9; 9; 15; 143; 0; 0; 0; 0; 15; 15; 232; 5; 6; 7; 8; 232; 1; 2].
Definition c11_bcj2_ds : list bool := [true; false; true; true; false; true; true; true; true].

Example C11_bcj2_example :
  bytes_ok c11_bcj2_data = true /\ Z.of_nat (length c11_bcj2_data) <= 4294967289 /\
  bcj2_encode c11_bcj2_data c11_bcj2_ds =
    ([85; 232; 232; 1; 2; 3; 4; 144; 233; 15; 133; 232; 232; 15; 143; 15; 15; 232; 232; 1; 2],
     [0; 0; 0; 2; 9; 9; 9; 38; 8; 7; 6; 47],
     [128; 0; 0; 33; 128; 0; 0; 22; 0; 0; 0; 35],
     [0; 182; 247; 252; 0; 0]) /\
  (exists d', (let '(m, c, j, r) := bcj2_encode c11_bcj2_data c11_bcj2_ds in
               bcj2_decode_oneshot m c j r (zlen c11_bcj2_data)) = Ok (true, d', c11_bcj2_data)) /\
  (let '(m, c, j, r) := bcj2_encode c11_bcj2_data c11_bcj2_ds in
   bcj2_dec_script (zlen c11_bcj2_data)
     (data_script [firstn 5 m; skipn 5 m], [IData (firstn 3 c); IErr E_INTERRUPTED; IData (firstn 2 (skipn 3 c)); IData (skipn 5 c)],
      data_script [firstn 1 j; firstn 5 (skipn 1 j); skipn 6 j], data_script [firstn 2 r; skipn 2 r]) [3; 0; 5; 1]) =
    Ok (c11_bcj2_data, None).
Proof.
  split; [reflexivity|]. split; [vm_compute; discriminate|]. split; [vm_compute; reflexivity|].
  split; [eexists; vm_compute; reflexivity|]. vm_compute. reflexivity.
Qed.
