(* Properties/C18.v — size options and declared sizes are honoured (XZ block size, LZIP member
   size; the .lzma expected-size clause and the multi-threaded clauses are decided elsewhere).
   Only theorem statements, each closed by [exact] of a lemma proved in Format/*Proofs.v. *)
From LzVerif Require Import Base.Bytes Format.XzFormat Format.LzipFormat Format.LzipDict
  Format.XzSplitProofs Format.LzipSplitProofs.

(* XZ, code after the F20 fix.  For EVERY partition of the data into write() calls (empty calls,
   flushes included: they do not change the state) and every block size option bs >= 1 and
   dictionary size: XZWriter::new accepts (at most three pre-filters), the block cutter terminates
   (no Fuel), the blocks are the input in order, every block holds between 1 and
   max(bs, dict) bytes and all blocks but the last hold exactly max(bs, dict). *)
Theorem C18_xz_block_bound : forall check bs filters dict parts o,
  1 <= bs ->
  xzw_new (mkXzopts check (Some bs) filters dict) = Ok o ->
  exists blocks, xz_blocks_of xz_fixed (xo_block_size o) parts = Ok blocks /\
    concat blocks = concat parts /\
    Forall (fun blk => 1 <= zlen blk <= Z.max bs dict) blocks /\
    all_but_last (fun blk => zlen blk = Z.max bs dict) blocks.
Proof. exact xz_block_bound. Qed.
Print Assumptions C18_xz_block_bound.

(* without a block size: one block with everything (no block at all for empty input) *)
Theorem C18_xz_blocks_unset : forall fx parts,
  xz_blocks_of fx None parts = Ok (match concat parts with [] => [] | d => [d] end).
Proof. exact xz_blocks_none. Qed.
Print Assumptions C18_xz_blocks_unset.

(* The code before the fix: false.  One write() of 5000 bytes with block_size = 4096 became one
   block of 5000 bytes, and even writes of at most 1000 bytes gave blocks of 5000 bytes (the limit
   was tested once per loop iteration, then the whole remaining buffer went into the block). *)
Theorem C18_xz_block_bound_refuted :
  exists bs parts blocks,
    xz_blocks_of xz_orig (Some bs) parts = Ok blocks /\ exists blk, In blk blocks /\ bs < zlen blk.
Proof. exact xz_block_bound_refuted. Qed.
Print Assumptions C18_xz_block_bound_refuted.

Theorem C18_xz_block_bound_refuted_small_writes :
  exists bs parts blocks,
    Forall (fun p => zlen p <= 1000) parts /\
    xz_blocks_of xz_orig (Some bs) parts = Ok blocks /\ exists blk, In blk blocks /\ bs < zlen blk.
Proof. exact xz_block_bound_refuted_small_writes. Qed.
Print Assumptions C18_xz_block_bound_refuted_small_writes.

(* LZIP: every member holds at most max(member_size, dict) bytes (dict clamped into
   [4 KiB, 512 MiB] by LZIPWriter::new), all but the last exactly that many; members are the input
   in order; the per-write clamp of the code never takes its bytes_to_write == 0 branch. *)
Theorem C18_lzip_member_bound : forall dict ms parts, 1 <= ms ->
  let o := lzw_new (mkLzopts dict (Some ms)) in
  exists members, lz_members_of (lo_member_size o) parts = Ok members /\
    concat members = concat parts /\
    Forall (fun mb => zlen mb <= Z.max ms (lzip_clamp_dict dict)) members /\
    all_but_last (fun mb => zlen mb = Z.max ms (lzip_clamp_dict dict)) members.
Proof. exact lzip_member_bound. Qed.
Print Assumptions C18_lzip_member_bound.

(* no empty member except the single member of an empty file *)
Theorem C18_lzip_members : forall m parts, 1 <= m ->
  exists members, lz_members_of (Some m) parts = Ok members /\
    concat members = concat parts /\
    Forall (fun mb => zlen mb <= m) members /\
    all_but_last (fun mb => zlen mb = m) members /\
    (members = [[]] \/ Forall (fun mb => 1 <= zlen mb) members).
Proof. exact lz_members_some. Qed.
Print Assumptions C18_lzip_members.

Theorem C18_lzip_members_unset : forall parts, lz_members_of None parts = Ok [concat parts].
Proof. exact lz_members_none. Qed.
Print Assumptions C18_lzip_members_unset.

(* Non-vacuity: concrete partitions; the clamp raises a block size of 1 to the dictionary size. *)
Example C18_xz_example :
  (do o <- xzw_new (mkXzopts 1 (Some 1) [] 4);
   xz_blocks_of xz_fixed (xo_block_size o) [[1; 2; 3]; []; [4; 5; 6; 7; 8; 9]; [10]])
  = Ok [[1; 2; 3; 4]; [5; 6; 7; 8]; [9; 10]].
Proof. vm_compute. reflexivity. Qed.
Example C18_lzip_example :
  lz_members_of (Some 4) [[1; 2; 3]; []; [4; 5; 6; 7; 8; 9]; [10]] = Ok [[1; 2; 3; 4]; [5; 6; 7; 8]; [9; 10]] /\
  lz_members_of (Some 4) [[]; []] = Ok [[]].
Proof. vm_compute. split; reflexivity. Qed.
