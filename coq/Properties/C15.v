(* Properties/C15.v — the unsafe fast paths stay inside their buffers: index arithmetic only
   (memory safety of raw pointers, SIMD loads and inline assembly is a run-time fact; what is
   proved is that every index handed to an unchecked access is in range under the stated
   precondition).  Preconditions owned by the match finders (distance <= read_pos + current_len,
   i.e. delta < cyclic_size <= retained history) are ASSUMED here and asserted at run time by the
   shadow assertions of hook H6.  Only theorem statements. *)
From LzVerif Require Import Base.Bytes Codec.Store Codec.Range
  Arith.Normalize Arith.DirectBitsAsm Arith.DirectBitsAsmProofs
  Arith.UnsafeBounds Arith.UnsafeBoundsProofs.

(* extend_match (src/lz/mod.rs), get_unchecked twin [opt = true] and safe twin [opt = false] *)
Theorem C15_extend_match_bounds : forall checked opt len read_pos current_len distance limit,
  0 <= len < 2 ^ 63 ->
  0 <= read_pos -> 0 <= current_len <= limit -> limit <= I32_MAX ->
  read_pos + current_len <= I32_MAX -> read_pos + current_len <= len ->
  0 <= distance <= read_pos + current_len ->
  (opt = false -> read_pos + limit <= len) ->
  let start1 := read_pos + current_len in
  let ext := Z.min (limit - current_len) (len - start1) in
  extend_match_ranges checked opt len read_pos current_len distance limit
    = Ok (start1, start1 + ext, start1 - distance, start1 - distance + ext) /\
  range_in len start1 (start1 + ext) = true /\
  range_in len (start1 - distance) (start1 - distance + ext) = true.
Proof. exact extend_match_bounds. Qed.
Print Assumptions C15_extend_match_bounds.

(* distance > start1: debug builds panic on the usize subtraction; release builds wrap - the safe
   twin then panics on the slice index, the unsafe twin reads out of bounds.  This is why the
   precondition is asserted by H6 and not only assumed. *)
Theorem C15_extend_match_far_distance : forall opt buf read_pos current_len distance limit,
  zlen buf < 2 ^ 63 ->
  0 <= read_pos -> 0 <= current_len <= limit -> limit <= I32_MAX ->
  read_pos + current_len <= I32_MAX -> read_pos + current_len <= zlen buf ->
  read_pos + current_len < distance <= I32_MAX ->
  extend_match true opt buf read_pos current_len distance limit = Panic PANIC_ARITH /\
  extend_match false opt buf read_pos current_len distance limit
    = Panic (if opt then UB_OOB_ACCESS else PANIC_SLICE_INDEX).
Proof. exact extend_match_far_distance. Qed.
Print Assumptions C15_extend_match_far_distance.

(* get_match_len_fast_reject (src/lz/lz_encoder.rs): both clamped u16 reads, for every usize
   read_pos and every i32 match_dist *)
Theorem C15_fast_reject_bounds : forall checked len read_pos match_dist c0 c1,
  2 <= len -> 0 <= read_pos ->
  fast_reject_offsets checked len read_pos match_dist = Ok (c0, c1) ->
  0 <= c0 /\ c0 + 2 <= len /\ 0 <= c1 /\ c1 + 2 <= len.
Proof. exact fast_reject_bounds. Qed.
Print Assumptions C15_fast_reject_bounds.

Theorem C15_fast_reject_far_distance : forall len read_pos match_dist,
  2 <= len < 2 ^ 63 -> 0 <= read_pos < match_dist -> match_dist <= I32_MAX ->
  fast_reject_offsets true len read_pos match_dist = Panic PANIC_ARITH /\
  fast_reject_offsets false len read_pos match_dist = Ok (Z.min read_pos (len - 2), len - 2).
Proof. exact fast_reject_far_distance. Qed.
Print Assumptions C15_fast_reject_far_distance.

(* the cmp/cmovg clamp of decode_direct_bits_x86_64 (src/range_dec.rs): limit = len - 1 *)
Theorem C15_asm_clamp_bounds : forall len pos,
  1 <= len < P2_63 -> 0 <= pos < P2_63 -> 0 <= asm_clamp (len - 1) pos <= len - 1.
Proof. exact asm_clamp_bounds_lemma. Qed.
Print Assumptions C15_asm_clamp_bounds.

(* cmovg is a signed compare: the bound on pos is necessary *)
Theorem C15_asm_clamp_signed_hole :
  exists len pos, 1 <= len < P2_63 /\ P2_63 <= pos < P2_64 /\ asm_clamp (len - 1) pos = pos.
Proof. exact asm_clamp_signed_hole. Qed.
Print Assumptions C15_asm_clamp_signed_hole.

(* the whole assembly loop, in EVERY decoder state (any range/code, pos inside, at or beyond the
   end of the chunk buffer, any u32 count): every byte load is inside the buffer and the stored
   position is inside [0, len] *)
Theorem C15_asm_loads_in_bounds : forall buf pos range code count,
  1 <= zlen buf < 2 ^ 62 -> 0 <= pos < 2 ^ 62 -> 0 <= count < 2 ^ 32 ->
  exists v r c p, direct_bits_asm buf pos range code count = Ok (v, r, c, p) /\ 0 <= p <= zlen buf.
Proof. exact asm_loads_in_bounds. Qed.
Print Assumptions C15_asm_loads_in_bounds.

(* AlignedMemoryI32::new (src/lz/aligned_memory.rs) *)
Theorem C15_aligned_alloc_ok : forall checked min_length,
  1 <= min_length < 2 ^ 60 ->
  exists required target_length,
    aligned_alloc checked min_length = Ok (required, target_length) /\
    required mod 64 = 0 /\ 64 <= required <= ISIZE_MAX - 63 /\
    4 * min_length <= required < 4 * min_length + 64 /\
    target_length * 4 = required /\ min_length <= target_length.
Proof. exact aligned_alloc_ok. Qed.
Print Assumptions C15_aligned_alloc_ok.

(* ---- non-vacuity ------------------------------------------------------------------------------------- *)
(* a match touching both ends of a 9-byte buffer: candidate at index 0, extension up to the last byte *)
Example C15_extend_match_bounds_example :
  extend_match_ranges false true 9 3 0 3 6 = Ok (3, 9, 0, 6) /\
  range_in 9 3 9 = true /\ range_in 9 0 6 = true.
Proof. vm_compute. repeat split; reflexivity. Qed.

Example C15_fast_reject_example :
  fast_reject_offsets false 10 9 3 = Ok (8, 6) /\ fast_reject_offsets true 10 2 5 = Panic PANIC_ARITH.
Proof. vm_compute. split; reflexivity. Qed.

(* a run of 5 bits that starts beyond the end of a 2-byte buffer: loads clamped to index 1 *)
Example C15_asm_example :
  direct_bits_asm [7; 9] 4 65536 1 5 = Ok (0, 134217728, 67849, 2).
Proof. vm_compute. reflexivity. Qed.

Example C15_aligned_alloc_example :
  aligned_alloc true 4097 = Ok (16448, 4112).
Proof. vm_compute. reflexivity. Qed.
