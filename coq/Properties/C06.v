(* Properties/C06.v — decoders stay total on untrusted bytes: no panic, abort, hang or blow-up.
   Only theorem statements, each closed by [exact] of a lemma proved elsewhere.
   PARTIAL: proved for the LZMA decoding core (the range decoder, the decision programs, the
   dictionary window): for ANY input bytes a decode call returns Ok or the distance error, never a
   panic, and needs no more iterations than limit - pos (its fuel).  The framing layers
   (LZMA/LZMA2/XZ/LZIP readers, filters, multi-threaded readers) are tied to the code by the
   correspondence on random, corrupted and hand-made hostile streams, with a watchdog for hangs;
   allocation bounds are C17's models. *)
From LzVerif Require Import Base.Bytes Codec.Store Codec.Range Codec.ProbProofs Codec.LzWindow Codec.LzmaDec
  Codec.LzmaAbs Codec.LzWindowProofs Codec.ProgProofs Codec.LzmaAbsProofs Codec.RangeNoWrapProofs Codec.LzmaTotalProofs.
From LzVerif Require Codec.LzmaChunkProofs Codec.LzmaRoundtrip.

(* The u32 product (range >> 11) * prob never overflows: decode_bit never takes the panic branch,
   for every decoder state with a 32-bit range and every table of valid probabilities. *)
Theorem C06_decode_bit_never_panics : forall d t k,
  probs_ok t -> rd_range d < 4294967296 -> decode_bit d t k <> None.
Proof. exact decode_bit_never_none. Qed.
Print Assumptions C06_decode_bit_never_panics.

(* Any decision program without failure nodes, run against the range decoder over ANY remaining
   input (including none: reads past the end yield 0), returns a value; registers and tables stay
   valid. *)
Theorem C06_run_rc_total : forall (A : Type) (p : prog A),
  psafe p -> forall d t, probs_ok t -> rdec_wf d ->
  exists a d' t', run_rc p d t = Ok (a, d', t') /\ rdec_wf d' /\ probs_ok t'.
Proof. exact @run_rc_safe. Qed.
Print Assumptions C06_run_rc_total.

(* A distance outside the dictionary is an error, never an out-of-buffer access. *)
Theorem C06_window_rejects_far : forall w hist dist len,
  Rel w hist -> w_full w <= dist -> lzwin_repeat w dist len = Err E_OTHER.
Proof. exact repeat_err. Qed.
Print Assumptions C06_window_rejects_far.

(* LZMADecoder::decode over the cyclic window, from any consistent decoder state (any history,
   any coder state in range, any valid tables, any pending copy) and on ANY input bytes: returns,
   with status Ok or an error of the decoder logic - no panic, no index out of range, and the
   iteration budget limit - pos suffices. *)
Theorem C06_decode_total : forall c w hist d t,
  Rel w hist -> hist_bytes hist -> coder_ok c (w_full w) -> w_pos w <= w_limit w ->
  (0 < w_pending_len w -> 0 <= w_pending_dist w < w_full w) ->
  probs_ok t -> rdec_wf d ->
  exists c1 w1 st d1 t1,
    lzma_decode c w d t = Ok (c1, w1, st, d1, t1) /\ (st = Ok tt \/ exists e, st = Err e) /\
    probs_ok t1.
Proof. exact lzma_decode_total. Qed.
Print Assumptions C06_decode_total.

(* Non-vacuity: the initial decoder state meets the hypotheses. *)
Example C06_initial_state :
  Rel (lzwin_set_limit (lzwin_new 4096 None) 100) [] /\ hist_bytes [] /\
  coder_ok (coder_new 3 0 2) (w_full (lzwin_set_limit (lzwin_new 4096 None) 100)) /\
  probs_ok PLeaf /\ rdec_wf (mkRdec 4294967295 12345 [1; 2; 3] 0).
Proof.
  split; [apply set_limit_rel; [apply LzmaChunkProofs.lzwin_new_rel; reflexivity | discriminate]|].
  split; [intros d; rewrite LzmaRoundtrip.hnth_nil; lia|].
  split; [unfold coder_ok, params_ok, reps_nonneg, coder_new; cbn [c_lc c_lp c_pb c_state c_rep0 c_rep1 c_rep2 c_rep3];
          repeat split; try lia; intros X; vm_compute in X; discriminate|].
  split; [apply probs_ok_empty | unfold rdec_wf; cbn; lia].
Qed.
