(* Properties/C01.v — LZMA/LZMA2 compress then decompress returns exactly the input.
   Only theorem statements, each closed by [exact] of a lemma proved elsewhere.

   Layers (DESIGN.md §4.1-4.3, §5 C01):
     range coder            C01_rc_roundtrip, C01_prob_update_twins
     symbol coding          C01_lit / C01_match / C01_rep / C01_len round trips, C01_dist_slot_spec
     LZ window              C01_window_decode_is_spec (the cyclic buffer with limits and pending
                            copies computes the specification decoder over a plain history list)
     composition            C01_chunk_roundtrip: symbols -> decisions -> range-coded bytes ->
                            LZMADecoder::decode over the window -> the described bytes, ending
                            exactly on the last byte with code = 0
   PARTIAL: the composition is proved for one run of symbols decoded by one decode call (any
   window contents, any probabilities, any trailing bytes); lifting it through the read loops of
   LZMAReader / LZMA2Reader (several calls, buffer wrap, chunk headers) is stated in DESIGN.md and
   tied by the correspondence run, not yet proved.  The parser and match finders are validated per
   run: [enc_syms] takes the symbol sequence as input and rejects it unless it describes the data. *)
From LzVerif Require Import Base.Bytes Codec.Store Codec.Range Codec.ProbProofs Codec.LzWindow Codec.LzmaDec
  Codec.LzmaEnc Codec.LzmaAbs Codec.LzWindowProofs Codec.ProgProofs Codec.LzmaAbsProofs
  Codec.RangeEncProofs Codec.RangeProofs Codec.LzmaSymProofs Codec.LzmaRoundtrip Codec.LzmaChunkProofs.

(* -- range coder ------------------------------------------------------------------------------ *)
Theorem C01_prob_update_twins : forall p bit,
  prob_ok p = true -> (bit = 0 \/ bit = 1) ->
  prob_update_enc p bit = prob_update_dec p bit /\ prob_ok (prob_update_enc p bit) = true.
Proof. exact prob_update_twins. Qed.
Print Assumptions C01_prob_update_twins.

(* For ANY decision program whose questions are answered by a recorded list of decisions, running
   it against the range decoder over what the range encoder wrote for those decisions (followed by
   arbitrary bytes) gives the same result and the same adapted tables, consumes exactly the
   encoder's bytes and ends with code = 0.  (The bound on the number of coded bits excludes the
   u32 overflow of the encoder's pending-byte counter after 4 GiB of 0xFF bytes.) *)
Theorem C01_rc_roundtrip : forall (A : Type) (p : prog A) (evs : list event) (a : A) (tail : list Z) (t0 : probs),
  probs_ok t0 -> forallb RangeEncProofs.ev_ok evs = true ->
  events_bits evs <= RC_MAX_BITS ->
  run_trace p evs = Some (Ok a, []) ->
  let '(e, t1) := renc_events renc_init t0 evs in
  let bytes := renc_bytes (renc_finish e) in
  exists d0 d1, rdec_init (bytes ++ tail) = Ok d0 /\ run_rc p d0 t0 = Ok (a, d1, t1) /\ probs_ok t1 /\
    rd_in (rdec_normalize d1) = tail /\ rd_code (rdec_normalize d1) = 0 /\ rd_over (rdec_normalize d1) = 0.
Proof. exact rc_roundtrip. Qed.
Print Assumptions C01_rc_roundtrip.

(* -- symbol coding ---------------------------------------------------------------------------- *)
Theorem C01_lit_roundtrip : forall lbase mb b rest,
  0 <= b < 256 -> (mb = None \/ exists m, mb = Some m /\ 0 <= m < 256) ->
  run_trace (lit_prog lbase mb) (lit_events lbase mb b ++ rest) = Some (Ok (256 + b), rest).
Proof. exact lit_roundtrip_strong. Qed.
Print Assumptions C01_lit_roundtrip.

Theorem C01_len_roundtrip : forall base len ps rest, 2 <= len <= 273 -> 0 <= ps < 16 ->
  exists evs, enc_len base len ps = Ok evs /\ run_trace (decode_len base ps) (evs ++ rest) = Some (Ok len, rest).
Proof. exact len_roundtrip. Qed.
Print Assumptions C01_len_roundtrip.

Theorem C01_dist_slot_spec : forall dist, 0 <= dist < 2 ^ 32 ->
  0 <= get_dist_slot dist < 64 /\
  (dist < 4 -> get_dist_slot dist = dist) /\
  (4 <= dist ->
     1 <= get_dist_slot dist / 2 - 1 <= 30 /\
     (2 + get_dist_slot dist mod 2) * 2 ^ (get_dist_slot dist / 2 - 1) <= dist
       < (2 + get_dist_slot dist mod 2 + 1) * 2 ^ (get_dist_slot dist / 2 - 1)).
Proof. exact dist_slot_spec. Qed.
Print Assumptions C01_dist_slot_spec.

Theorem C01_match_roundtrip : forall c ps dist len evs c' rest,
  0 <= dist < 2 ^ 32 -> 2 <= len <= 273 -> 0 <= ps < 16 ->
  enc_match_events c ps dist len = Ok (evs, c') ->
  run_trace (decode_match c ps) (evs ++ rest) = Some (Ok (c', len), rest).
Proof. exact match_roundtrip. Qed.
Print Assumptions C01_match_roundtrip.

Theorem C01_rep_roundtrip : forall c ps idx len evs c' rest,
  enc_rep_events c ps idx len = Ok (evs, c') ->
  run_trace (decode_rep_match c ps) (evs ++ rest) = Some (Ok (c', len), rest).
Proof. exact rep_roundtrip_of_ok. Qed.
Print Assumptions C01_rep_roundtrip.

(* -- the window ------------------------------------------------------------------------------- *)
(* LZMADecoder::decode over the cyclic dictionary buffer - resuming a pending copy, decoding
   symbols while there is room below the limit, leaving the rest of a match pending - computes,
   for EVERY limit, exactly the byte-granular specification decoder over a plain history list. *)
Theorem C01_window_decode_is_spec : forall c w hist d t n,
  Rel w hist -> coder_ok c (w_full w) -> w_pos w <= w_limit w ->
  Z.of_nat n = w_limit w - w_pos w ->
  (0 < w_pending_len w -> 0 <= w_pending_dist w < w_full w) ->
  match run_rc (aproduce n (mkAstate c hist (w_size w) (w_pending_len w) (w_pending_dist w))) d t with
  | Ok (s2, st2, d2, t2) =>
      exists w1, lzma_decode c w d t =
                 Ok (a_coder s2, w1, st2, match st2 with Ok _ => rdec_normalize d2 | _ => d2 end, t2) /\
                 loop_rel w hist (a_coder s2, w1, st2) (s2, st2)
  | Err e => lzma_decode c w d t = Err e
  | Panic e => lzma_decode c w d t = Panic e
  | Fuel => lzma_decode c w d t = Fuel
  end.
Proof. exact lzma_decode_abs. Qed.
Print Assumptions C01_window_decode_is_spec.

(* -- composition ------------------------------------------------------------------------------ *)
(* Any symbol sequence the validator accepts for the data ([enc_syms] = Ok), coded with any
   probability tables, followed by any bytes, is decoded by one call of LZMADecoder::decode over
   any window holding the same history into exactly the bytes the symbols describe ([hist_rel h'
   hist'] says the new history is the data up to the new position); the coder, the adapted tables
   and the range decoder end where the encoder ended: nothing of [tail] is consumed, code = 0. *)
Theorem C01_chunk_roundtrip :
  forall c h hist w syms evs c' h' t0 tail n,
  no_end syms -> hist_rel h hist -> data_ok h -> reps_nonneg c ->
  h_dict h <= 2147483648 -> (h_dict h <= w_size w \/ h_total h - h_base h <= w_size w) ->
  enc_syms c h syms = Ok (evs, c', h') ->
  probs_ok t0 -> events_bits evs <= RC_MAX_BITS ->
  Rel w hist -> coder_ok c (w_full w) -> w_pending_len w = 0 ->
  Z.of_nat n = h_pos h' - h_pos h -> w_limit w = w_pos w + Z.of_nat n ->
  let bytes := renc_bytes (renc_finish (fst (renc_events renc_init t0 evs))) in
  exists d0 w1 d1 hist',
    rdec_init (bytes ++ tail) = Ok d0 /\
    lzma_decode c w d0 t0 = Ok (c', w1, Ok tt, d1, snd (renc_events renc_init t0 evs)) /\
    Rel w1 hist' /\ hist_rel h' hist' /\ zlen hist' = zlen hist + Z.of_nat n /\
    w_pending_len w1 = 0 /\ w_start w1 = w_start w /\ w_pos w1 = w_pos w + Z.of_nat n /\
    rd_in d1 = tail /\ rd_code d1 = 0 /\ rd_over d1 = 0.
Proof. exact chunk_roundtrip. Qed.
Print Assumptions C01_chunk_roundtrip.

(* Non-vacuity: a concrete instance of every hypothesis of C01_chunk_roundtrip
   (data "abababa" parsed as two literals and a match of length 5 at distance 2). *)
Example C01_chunk_example :
  let h := LzmaWriters.ehist_new 4096 [] [97; 98; 97; 98; 97; 98; 97] in
  let c := coder_new 3 0 2 in
  let w := lzwin_set_limit (lzwin_new 4096 None) 7 in
  exists evs c' h',
    enc_syms c h [SLit 97; SLit 98; SMatch 1 5] = Ok (evs, c', h') /\
    no_end [SLit 97; SLit 98; SMatch 1 5] /\ hist_rel h [] /\ data_ok h /\ reps_nonneg c /\
    h_dict h <= 2147483648 /\ (h_dict h <= w_size w \/ h_total h - h_base h <= w_size w) /\ events_bits evs <= RC_MAX_BITS /\
    Rel w [] /\ coder_ok c (w_full w) /\ w_pending_len w = 0 /\
    Z.of_nat 7 = h_pos h' - h_pos h /\ w_limit w = w_pos w + Z.of_nat 7.
Proof.
  cbv zeta.
  destruct (enc_syms (coder_new 3 0 2) (LzmaWriters.ehist_new 4096 [] [97; 98; 97; 98; 97; 98; 97])
              [SLit 97; SLit 98; SMatch 1 5]) as [[[evs c'] h']|e|e|] eqn:E;
    try (vm_compute in E; discriminate).
  exists evs, c', h'. split; [reflexivity|].
  assert (Hpos : h_pos h' = 7 /\ events_bits evs <= RC_MAX_BITS).
  { vm_compute in E. inversion E; subst. vm_compute. split; [reflexivity | discriminate]. }
  destruct Hpos as (Hpos & Hbits).
  split; [intros s [<-|[<-|[<-|[]]]]; discriminate|].
  split; [split; [reflexivity|]; split; [vm_compute; discriminate|]; intros d Hd; unfold zlen in Hd; cbn [length Z.of_nat] in Hd; lia|].
  split; [apply data_ok_new; reflexivity|].
  split; [unfold reps_nonneg, coder_new; cbn; lia|].
  split; [vm_compute; discriminate|]. split; [left; vm_compute; discriminate|]. split; [exact Hbits|].
  destruct (set_limit_rel (lzwin_new 4096 None) [] 7 (lzwin_new_rel 4096 ltac:(reflexivity) ltac:(reflexivity)) ltac:(discriminate)) as (HR & _).
  split; [exact HR|].
  split; [unfold coder_ok, params_ok, reps_nonneg, coder_new; cbn [c_lc c_lp c_pb c_state c_rep0 c_rep1 c_rep2 c_rep3]; repeat split; try lia; intros X; vm_compute in X; discriminate|].
  split; [reflexivity|]. split; [rewrite Hpos; reflexivity | reflexivity].
Qed.
