(* Properties/C01.v — LZMA/LZMA2 compress then decompress returns exactly the input.
   Only theorem statements, each closed by [exact] of a lemma proved elsewhere.
   (Work in progress: the statements below are the parts closed so far; the composition into the
   full round-trip theorem is stated in DESIGN.md §5 C01.) *)
From LzVerif Require Import Base.Bytes Codec.Store Codec.Range Codec.ProbProofs.

(* The encoder's and the decoder's probability updates are the same function on valid
   probabilities and keep them valid: both sides adapt identically, and bound = (range>>11)*p
   satisfies 0 < bound < range without u32 overflow.  Finite domain 31..2017 x {0,1}, enumerated. *)
Theorem C01_prob_update_twins : forall p bit,
  prob_ok p = true -> (bit = 0 \/ bit = 1) ->
  prob_update_enc p bit = prob_update_dec p bit /\ prob_ok (prob_update_enc p bit) = true.
Proof. exact prob_update_twins. Qed.
Print Assumptions C01_prob_update_twins.
