(* Properties/C07Bcj2.v — C07 for the BCJ2 reader: the bytes returned do not depend on how the four
   inner readers chop their streams nor on the sizes of the caller's buffers (zeros included).
   Only theorem statements, closed by [exact] of lemmas of Filter/Bcj2ReaderProofs.v (the same
   lemmas are restated for C11). *)
From LzVerif Require Import Base.Bytes Filter.Bcj Filter.BcjStream.
From LzVerif Require Import Filter.Bcj2 Filter.Bcj2Enc Filter.Bcj2SpecProofs Filter.Bcj2ReaderProofs.

Theorem C07_bcj2_reader_any_sizes : forall data ds pm pc pj pr sizes,
  bytes_ok data = true -> Z.of_nat (length data) <= 4294967289 ->
  (let '(m, c, j, r) := bcj2_encode data ds in concat pm = m /\ concat pc = c /\ concat pj = j /\ concat pr = r) ->
  Forall (fun n => 0 <= n) sizes ->
  let ins := (data_script pm, data_script pc, data_script pj, data_script pr) in
  exists r' ins',
    bcj2_read_calls (bcj2_read_fuel ins) (bcj2_reader_new (zlen data)) ins sizes =
      Ok (firstn (Z.to_nat (fold_right Z.add 0 sizes)) data, [], r', ins').
Proof. exact bcj2_reader_any_chunking. Qed.
Print Assumptions C07_bcj2_reader_any_sizes.

Theorem C07_bcj2_reader_zero_read : forall fuel r ins, bcj2_read fuel r ins 0 = Ok ([], None, r, ins).
Proof. exact bcj2_reader_zero_read. Qed.
Print Assumptions C07_bcj2_reader_zero_read.
