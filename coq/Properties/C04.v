(* Properties/C04.v — corrupted XZ/LZIP input is never returned as valid different data.
   Only theorem statements, each closed by [exact] of a lemma proved in Format/*Proofs.v.
   The reader models are the whole-file functions xz_decode / lz_decode of Format/XzFormat.v and
   Format/LzipFormat.v ([xz_fixed], [lz_fixed]: the code with the fix patches), over an arbitrary
   check function H and arbitrary payload decoders. *)
From LzVerif Require Import Base.Bytes Format.Crc Format.CrcProofs Format.XzFormat Format.LzipFormat Format.LzipDict
  Format.BitflipProofs Format.XzSoundProofs Format.LzipSoundProofs Format.ContainerRefutations.

(* C04_sound_xz.  If XZReader reports success with data d, then the input consists of: the stream
   magic, flag bytes [0; ct] with a known check type, the CRC-32 of the flags - and streams
   ([xz_streams_ok], Format/XzSoundProofs.v) in each of which
   - every block header has a non-zero size byte, the declared length and a verified CRC-32,
   - the block's filter chain decoded the compressed data to exactly the bytes returned for it,
   - the block padding is zero bytes up to four-byte alignment,
   - the stored check equals H(ct, returned bytes of the block) (absent for check type None),
   - the index has as many records as blocks were decoded and a verified CRC-32,
   - the footer has a verified CRC-32, the header's flags and the footer magic,
   - what follows a stream is stream padding of a multiple of four null bytes and then the end of
     the input or another stream header (multi-stream mode), or is left unread (single-stream);
   and d is the concatenation of the blocks' contents.  Hence a damaged file is accepted with
   content d' only if every block check stored in it equals H of that block's part of d': d'
   differs from the original only by a collision of H (or with check type None, which the property
   excludes).  Hypothesis: the payload decoder only consumes input (returns a suffix). *)
Theorem C04_sound_xz :
  forall (H : Z -> list Z -> list Z) (blockdec : list (fkind * Z) -> list Z -> outcome (list Z * list Z)),
  (forall fs src c r, blockdec fs src = Ok (c, r) -> suffix r src) ->
  forall multi src d rest,
    xz_decode H blockdec xz_fixed multi src = Ok (d, rest) ->
    exists ct crc tl css,
      src = XZ_MAGIC ++ [0; ct] ++ crc ++ tl /\ check_known ct = true /\ zlen crc = 4 /\ le_value crc = crc32 [0; ct] /\
      xz_streams_ok H blockdec multi ct 12 tl css rest /\ d = concat (map (@concat Z) css).
Proof. exact C04_sound_xz_thm. Qed.
Print Assumptions C04_sound_xz.

(* C04_sound_lzip: success means a sequence of members with valid headers, each LZMA stream decoded
   to the bytes returned, trailer CRC-32 / data size / member size equal to the computed values;
   then the end of the input or (after a complete member) trailing data that is not the magic. *)
Theorem C04_sound_lzip :
  forall (pdec : Z -> list Z -> outcome (list Z * list Z)) src d rest,
    lz_decode pdec lz_fixed src = Ok (d, rest) ->
    exists cs, lz_members_ok pdec true src cs rest /\ d = concat cs.
Proof. exact C04_sound_lzip_thm. Qed.
Print Assumptions C04_sound_lzip.

(* C04_magic: nothing that does not begin with the format's magic and a valid header is accepted
   (XZ: not even the empty input; LZIP: the empty input is the one exception, see the F6 patch) *)
Theorem C04_magic_xz :
  forall (H : Z -> list Z -> list Z) blockdec fx multi src d rest,
    xz_decode H blockdec fx multi src = Ok (d, rest) ->
    exists ct crc tl, src = XZ_MAGIC ++ [0; ct] ++ crc ++ tl /\ check_known ct = true /\
                      zlen crc = 4 /\ le_value crc = crc32 [0; ct].
Proof. exact xz_decode_magic. Qed.
Print Assumptions C04_magic_xz.

Theorem C04_magic_lzip :
  forall (pdec : Z -> list Z -> outcome (list Z * list Z)) src d rest,
    lz_decode pdec lz_fixed src = Ok (d, rest) ->
    src = [] \/ exists dbyte dd tl, src = LZIP_MAGIC ++ [1; dbyte] ++ tl /\ lzip_decode_dict_size dbyte = Ok dd.
Proof. exact C04_magic_lzip_thm. Qed.
Print Assumptions C04_magic_lzip.

(* KNOWN FINDING lzip-empty-input (known-findings.txt): the EMPTY input is accepted as an empty file
   by LZIPReader, so an LZIP file truncated to zero bytes reads as success with no data (lzip(1) and
   liblzma report an error).  It cannot be repaired without breaking the baseline test
   tests/lzip_reference.rs, which decodes an empty .lz fixture in this tree.  C04_magic_lzip above
   is the statement "for every input outside the known class (src <> []) the property holds"; this
   is the witness that the known class is accepted. *)
Theorem C04_lzip_empty_input_known :
  forall (pdec : Z -> list Z -> outcome (list Z * list Z)), lz_decode pdec lz_fixed [] = Ok ([], []).
Proof. exact lz_decode_empty_known. Qed.
Print Assumptions C04_lzip_empty_input_known.

(* F6: false on the code before the fix - text that is not LZIP decodes "successfully" to nothing *)
Theorem C04_magic_lzip_refuted : exists rest, lz_decode_c lz_orig w_not_lzip = Ok ([], rest).
Proof. exact lzip_garbage_refuted. Qed.
Print Assumptions C04_magic_lzip_refuted.

(* C04_bitflip.  [one_byte_diff l l'] = l' is l with exactly one byte replaced by a different byte
   (every single-bit flip is an instance).  Inside the fixed-extent CRC-32-protected regions of an
   XZ file and inside the stored check fields, of two inputs that differ this way at most one is
   accepted - a damaged byte is detected with certainty, not with probability 1 - 2^-32.  Basis:
   the CRC-32 of two byte strings that differ in exactly one byte differs. *)
Theorem C04_crc32_one_byte : forall p b1 b2 s,
  bytes_ok p = true -> 0 <= b1 < 256 -> 0 <= b2 < 256 -> bytes_ok s = true -> b1 <> b2 ->
  crc32 (p ++ b1 :: s) <> crc32 (p ++ b2 :: s).
Proof. exact crc32_one_byte. Qed.
Print Assumptions C04_crc32_one_byte.

Theorem C04_crc64_one_byte : forall p b1 b2 s,
  bytes_ok p = true -> 0 <= b1 < 256 -> 0 <= b2 < 256 -> bytes_ok s = true -> b1 <> b2 ->
  crc64 (p ++ b1 :: s) <> crc64 (p ++ b2 :: s).
Proof. exact crc64_one_byte. Qed.
Print Assumptions C04_crc64_one_byte.

Theorem C04_bitflip_stream_header : forall h h' rest rest' x x',
  zlen h = 12 -> bytes_ok h = true -> bytes_ok h' = true -> one_byte_diff h h' ->
  xz_parse_stream_header (h ++ rest) = Ok x -> xz_parse_stream_header (h' ++ rest') = Ok x' -> False.
Proof. exact bitflip_stream_header. Qed.
Print Assumptions C04_bitflip_stream_header.

(* the block header apart from its size byte (a damaged size byte changes the extent of the
   CRC-covered region: the 2^-32 case) *)
Theorem C04_bitflip_block_header : forall enc hd hd' rest rest' bh bh' r r',
  zlen hd = (enc + 1) * 4 - 1 -> bytes_ok (enc :: hd) = true -> bytes_ok (enc :: hd') = true ->
  one_byte_diff hd hd' ->
  xz_parse_block_header (enc :: hd ++ rest) = Ok (Some bh, r) ->
  xz_parse_block_header (enc :: hd' ++ rest') = Ok (Some bh', r') -> False.
Proof. exact bitflip_block_header. Qed.
Print Assumptions C04_bitflip_block_header.

Theorem C04_bitflip_stream_footer : forall h h' rest rest' x x',
  zlen h = 12 -> bytes_ok h = true -> bytes_ok h' = true -> one_byte_diff h h' ->
  xz_parse_footer (h ++ rest) = Ok x -> xz_parse_footer (h' ++ rest') = Ok x' -> False.
Proof. exact bitflip_stream_footer. Qed.
Print Assumptions C04_bitflip_stream_footer.

(* a damaged stored check field (CRC32, CRC64, SHA-256) of a block is detected *)
Theorem C04_bitflip_check_field : forall ct computed stored stored' rest rest' r r',
  zlen stored = check_size ct -> zlen stored' = check_size ct -> stored <> stored' -> ct <> 0 ->
  xz_verify_check ct computed (stored ++ rest) = Ok r -> xz_verify_check ct computed (stored' ++ rest') = Ok r' -> False.
Proof. exact bitflip_check_field. Qed.
Print Assumptions C04_bitflip_check_field.

(* LZIP member trailer: for the same decoded data and consumed length only one 20-byte trailer is
   accepted - any damage inside CRC32 / data size / member size is detected *)
Theorem C04_bitflip_lzip_trailer : forall crc ds cs t t' rest rest' r r',
  zlen t = 20 -> zlen t' = 20 -> bytes_ok t = true -> bytes_ok t' = true ->
  lz_check_trailer crc ds cs (t ++ rest) = Ok r -> lz_check_trailer crc ds cs (t' ++ rest') = Ok r' -> t = t'.
Proof. exact bitflip_lzip_trailer. Qed.
Print Assumptions C04_bitflip_lzip_trailer.

(* Non-vacuity: a real file is accepted (so the premises of the soundness theorem hold for it), a
   flipped bit in its stream header, block header, check field, index, footer or payload is an error. *)
Example C04_instance :
  xz_decode_c xz_fixed false w_hello = Ok (w_content, []) /\
  forallb (fun i => match xz_decode_c xz_fixed false (firstn i w_hello ++ [Z.lxor (nth i w_hello 0) 4] ++ skipn (S i) w_hello) with
                    | Ok _ => false | _ => true end) (seq 0 (length w_hello)) = true.
Proof. split; vm_compute; reflexivity. Qed.
Example C04_one_byte_diff_instance : one_byte_diff [253; 55; 122] [253; 54; 122].
Proof. exists [253], 55, 54, [122]. repeat split; congruence. Qed.
