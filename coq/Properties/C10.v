(* Properties/C10.v — dropping or finishing an MT reader/writer releases all of its threads; the
   thread count never exceeds the clamped maximum.
   Only theorem statements, each closed by [exact] of a lemma proved in Mt/*Proofs.v.

   Claimed PARTIAL: "a worker thread terminates" is identified with "its worker function returns"
   (program point WExit); sequential consistency over the modelled operations. *)
From LzVerif Require Import Base.Bytes Mt.Protocol Mt.ProtocolLemmas Mt.ProtocolInv Mt.LiveInv Mt.LivenessProofs
  Mt.MeasureProofs Mt.Refuted.
Local Open Scope nat_scope.

(* at most num_workers.clamp(1, 256) workers are ever spawned — every configuration *)
Theorem C10_spawn_bound : forall (R : Type) (f : nat -> R + Z) c src p (s : state R),
  reachable f c src p s -> length (ws s) <= Nat.max 1 (Nat.min (k_workers c) 256).
Proof. exact @spawn_bound. Qed.
Print Assumptions C10_spawn_bound.

(* Drop is a fixed sequence of at most 6 coordinator steps.  Every one of them is enabled, except
   the acquisition of the queue mutex by the repaired close(): then a worker inside steal()'s
   critical section holds the mutex, and that worker is enabled.  Every configuration. *)
Theorem C10_drop_nonblocking : forall (R : Type) (f : nat -> R + Z) c src p (s : state R),
  reachable f c src p s -> drop_pc (pc s) = true ->
  (exists s', co_step c s 0 = Some s' /\ drop_rank (pc s') < drop_rank (pc s) /\
              (drop_pc (pc s') = true \/ pc s' = CDone)) \/
  (pc s = CCloseLock false /\
   exists i w, q_lock s = Some (Wk i) /\ nth_opt (ws s) i = Some w /\ holds_lock w = true /\
               wk_step f c s i <> None).
Proof. exact @drop_nonblocking. Qed.
Print Assumptions C10_drop_nonblocking.

(* ... and that worker releases the mutex within three of its own steps *)
Theorem C10_holder_releases : forall (R : Type) (f : nat -> R + Z) c src p (s : state R) i w s',
  reachable f c src p s -> nth_opt (ws s) i = Some w -> holds_lock w = true ->
  wk_step f c s i = Some s' ->
  q_lock s' = None \/ exists w', nth_opt (ws s') i = Some w' /\ holds_lock w' = true /\ hold_rank w' < hold_rank w.
Proof. exact @holder_releases. Qed.
Print Assumptions C10_holder_releases.

(* Repaired code: once Drop has finished, a state in which nothing can move has all workers exited;
   by C09_mt_terminates every continuation reaches such a state after finitely many steps. *)
Theorem C10_drop_releases : forall (R : Type) (f : nat -> R + Z) c src p (s : state R),
  Fx c -> reachable f c src p s -> pc s = CDone -> stuck f c s = true -> all_exited s = true.
Proof. exact @drop_releases. Qed.
Print Assumptions C10_drop_releases.

Theorem C10_continuations_finite : forall (R : Type) (f : nat -> R + Z) c src p (s : state R) sched s',
  Fx c -> reachable f c src p s -> run_strict f c s sched = Some s' ->
  length sched + measure c s' <= measure c s.
Proof. exact @mt_terminates. Qed.
Print Assumptions C10_continuations_finite.

(* ---- the pinned code violates the property (F15): close() notifies without the queue mutex ---- *)
Theorem C10_lost_wakeup_refuted :
  exists sched s, run_strict f_ok rd0 (init rd0 [] [OpDrop]) sched = Some s /\ leaked f_ok rd0 s = true.
Proof. exact lost_wakeup_refuted. Qed.
Print Assumptions C10_lost_wakeup_refuted.

(* Non-vacuity: the same interleaving on the repaired code — the worker is inside the window when
   Drop starts — ends with the worker exited. *)
Example C10_repaired_example :
  let s0 := run f_ok rd1 (init rd1 [] [OpDrop]) [Wk 0; Wk 0; Wk 0; Wk 0] in
  let '(s, maximal) := run_auto f_ok rd1 s0 true 200 in
  ws s0 = [WWait] /\ maximal = true /\ all_exited s = true /\ dropped s = true.
Proof. vm_compute. auto. Qed.
