(* Properties/C02.v — XZ and LZIP containers round-trip every input under every option.
   Only theorem statements, each closed by [exact] of a lemma proved in Format/*Proofs.v.

   The models: Format/XzFormat.v (XZWriter = xz_write / xz_container / xz_blocks_of; XZReader as the
   whole-file function xz_decode, built from the same parsers as the call-by-call model that the
   correspondence check runs against the implementation), Format/LzipFormat.v.  [xz_fixed] /
   [lz_fixed] = the code with the fix patches of repo-patches/ (F4, F5, F20, ... , F6) applied.
   The LZMA2 / LZMA payload codec and the pre-filter codecs are universally quantified; the only
   thing assumed about them is their own round trip (C01/C16: payload decoded, the bytes after it
   untouched, for every decoder dictionary at least the encoder's; C11: filters are inverses). *)
From LzVerif Require Import Base.Bytes Format.Vli Format.VliProofs Format.XzFormat Format.LzipFormat
  Format.LzipDict Format.LzipDictProofs Format.XzSplitProofs Format.LzipSplitProofs Format.XzHeaderProofs
  Format.XzBlockHeaderProofs Format.XzProofs Format.LzipProofs Format.ContainerRefutations Format.RoundTripExamples.

(* C02_xz.  For every payload codec and filter codec with the round-trip property, every options
   vector a caller may legally configure ([stream_ok]: one of the four check types, at most three
   pre-filters - more make XZWriter::new fail, then no file exists -, delta distances 1..256, aligned
   BCJ start offsets, block size >= 1 or unset), every dictionary size the writer accepts, and every
   partition of the data into write() calls (empty slices, i.e. empty writes and flushes, included):
   whatever file the writer returns, the crate's reader decodes to exactly the concatenation of the
   slices written and consumes the whole file, with multi-stream decoding on or off.  The empty
   input is included (parts = [] or all slices empty). *)
Theorem C02_xz :
  forall (penc : Z -> list Z -> list Z) (pdec : Z -> list Z -> outcome (list Z * list Z)),
  (forall d dd x tail, d <= dd -> pdec dd (penc d x ++ tail) = Ok (x, tail)) ->
  forall (fenc fdec : fkind -> Z -> list Z -> list Z),
  (forall k p x, fdec k p (fenc k p x) = x) ->
  forall o0 parts f multi, stream_ok o0 ->
    xz_encode penc fenc xz_fixed o0 parts = Ok f ->
    xz_decode xz_check_bytes (blockdec pdec fdec) xz_fixed multi f = Ok (concat parts, []).
Proof. exact C02_xz_thm. Qed.
Print Assumptions C02_xz.

(* the function [xz_encode] of the theorem is the writer model [xz_write] applied to the payloads the
   codec produces for the blocks the writer cuts *)
Theorem C02_xz_encode_is_writer :
  forall (penc : Z -> list Z -> list Z) (fenc : fkind -> Z -> list Z -> list Z) fx o0 parts,
    xz_encode penc fenc fx o0 parts =
    (do o <- xzw_new o0; do blocks <- xz_blocks_of fx (xo_block_size o) parts;
     xz_write fx o0 parts (map (payload_of penc fenc o) blocks)).
Proof. exact xz_encode_is_write. Qed.
Print Assumptions C02_xz_encode_is_writer.

(* Block boundaries never lose, duplicate or reorder data: for every partition, the blocks
   concatenate to the concatenation of the slices, none is empty (C18 adds the size bound). *)
Theorem C02_xz_blocks_partition : forall b parts, 1 <= b ->
  exists blocks, xz_blocks_of xz_fixed (Some b) parts = Ok blocks /\
    concat blocks = concat parts /\
    Forall (fun blk => 1 <= zlen blk <= b) blocks /\
    all_but_last (fun blk => zlen blk = b) blocks.
Proof. exact xz_blocks_fixed_some. Qed.
Print Assumptions C02_xz_blocks_partition.

(* xz_dict_ok: the LZMA2 dictionary-size property written into the block header announces a
   dictionary at least as large as the one in use, for every size the format can express *)
Theorem C02_xz_dict_ok : forall d,
  4096 <= d <= 3221225472 \/ d = 4294967295 ->
  exists p dd, xz_encode_dict d = Ok p /\ 0 <= p <= 40 /\ xz_decode_dict p = Ok dd /\ d <= dd.
Proof. exact xz_dict_ok. Qed.
Print Assumptions C02_xz_dict_ok.

(* whatever property the writer accepts, the reader's dictionary is large enough *)
Theorem C02_xz_dict_sound : forall d p, xz_encode_dict d = Ok p ->
  exists dd, 0 <= p <= 40 /\ xz_decode_dict p = Ok dd /\ d <= dd.
Proof. exact xz_encode_dict_sound. Qed.
Print Assumptions C02_xz_dict_sound.

(* vli_roundtrip: every multibyte integer below 2^63 is read back by both parsers of the crate *)
Theorem C02_vli_roundtrip : forall v tail, 0 <= v <= U63_MAX ->
  vli_parse_reader (vli_bytes v ++ tail) = Ok (v, tail) /\
  vli_parse_slice (vli_bytes v ++ tail) = Ok v /\
  vli_size_slice (vli_bytes v ++ tail) = zlen (vli_bytes v) /\
  skipn (Z.to_nat (vli_size_slice (vli_bytes v ++ tail))) (vli_bytes v ++ tail) = tail /\
  vli_size_value v = zlen (vli_bytes v) /\
  1 <= zlen (vli_bytes v) <= 9 /\
  bytes_ok (vli_bytes v) = true.
Proof. exact vli_roundtrip. Qed.
Print Assumptions C02_vli_roundtrip.

(* The block header written for legal options is parsed back: same pre-filters and properties,
   LZMA2 last, a dictionary >= the encoder's, header length a multiple of four. *)
Theorem C02_xz_block_header : forall o hb rest, opts_ok o -> xz_block_header o = Ok hb ->
  exists dd, xo_dict o <= dd /\
    xz_parse_block_header (hb ++ rest) = Ok (Some (mkBhdr None None (xo_filters o ++ [(FLZMA2, dd)])), rest) /\
    zlen hb mod 4 = 0 /\ 12 <= zlen hb.
Proof. exact xz_block_header_rt. Qed.
Print Assumptions C02_xz_block_header.

(* F4: false on the code before the fix - the file written for EMPTY input is rejected by the
   crate's own reader and by the format specification. *)
Theorem C02_xz_empty_input_refuted :
  exists f, xz_write xz_orig w_opts [] [] = Ok f /\
            xz_decode_c xz_orig false f = Err E_INVALID_DATA /\
            XzSpecExec.xz_spec_decode_c true f = None.
Proof. exact xz_finish_empty_refuted. Qed.
Print Assumptions C02_xz_empty_input_refuted.

(* C02_lzip.  For every payload codec with the round-trip property, every requested dictionary
   size (LZIPWriter::new clamps it into [4 KiB, 512 MiB]; the header byte announces at least the
   clamped size: lzip_dict_ok), every member size >= 1 or unset and every partition: the file the
   writer returns decodes to exactly the bytes written, wholly consumed.  Side conditions: the data
   are bytes, and the u64 counters of the trailer do not wrap (fewer than 2^64 bytes per member). *)
Theorem C02_lzip :
  forall (penc : Z -> list Z -> list Z) (pdec : Z -> list Z -> outcome (list Z * list Z)),
  (forall d dd x tail, d <= dd -> pdec dd (penc d x ++ tail) = Ok (x, tail)) ->
  forall o0 parts f,
    bytes_ok (concat parts) = true ->
    (forall members, lz_members_of (lo_member_size (lzw_new o0)) parts = Ok members ->
                     lz_sizes_ok penc (lo_dict (lzw_new o0)) members) ->
    match lo_member_size o0 with Some m => 1 <= m | None => True end ->
    lz_encode penc o0 parts = Ok f ->
    lz_decode pdec lz_fixed f = Ok (concat parts, []).
Proof. exact C02_lzip_thm. Qed.
Print Assumptions C02_lzip.

(* lzip_dict_ok (proved in Format/LzipDictProofs.v, the F3 fix): the header byte announces a
   dictionary at least as large as the one in use, and at most an eighth larger *)
Theorem C02_lzip_dict_ok : forall d,
  LZIP_MIN_DICT <= d <= LZIP_MAX_DICT ->
  exists byte dd, lzip_encode_dict_size d = Ok byte /\ 0 <= byte < 256 /\
                  lzip_decode_dict_size byte = Ok dd /\ d <= dd /\ 16 * (dd - d) < 2 * d.
Proof. exact lzip_dict_ok. Qed.
Print Assumptions C02_lzip_dict_ok.

Theorem C02_lzip_members_partition : forall m parts, 1 <= m ->
  exists members, lz_members_of (Some m) parts = Ok members /\
    concat members = concat parts /\
    Forall (fun mb => zlen mb <= m) members /\
    all_but_last (fun mb => zlen mb = m) members /\
    (members = [[]] \/ Forall (fun mb => 1 <= zlen mb) members).
Proof. exact lz_members_some. Qed.
Print Assumptions C02_lzip_members_partition.

(* Non-vacuity: codecs with the assumed round-trip property exist, legal option vectors exist, and
   the conclusions are computed on concrete instances (two blocks, delta slot, SHA-256; three LZIP
   members with a dictionary size that is not representable exactly). *)
Example C02_payload_codec_exists :
  exists (penc : Z -> list Z -> list Z) (pdec : Z -> list Z -> outcome (list Z * list Z)),
    forall d dd x tail, d <= dd -> pdec dd (penc d x ++ tail) = Ok (x, tail).
Proof. exact payload_codec_exists. Qed.
Example C02_filter_codec_exists :
  exists (fenc fdec : fkind -> Z -> list Z -> list Z), forall k p x, fdec k p (fenc k p x) = x.
Proof. exact filter_codec_exists. Qed.
Example C02_xz_instance :
  stream_ok ex_opts /\
  exists f, xz_encode toy_penc (fun _ _ x => x) xz_fixed ex_opts ex_parts = Ok f /\
            xz_decode xz_check_bytes (blockdec toy_pdec (fun _ _ x => x)) xz_fixed true f = Ok (concat ex_parts, []) /\
            xz_blocks_of xz_fixed (Some 4096) ex_parts = Ok [repeatn 7 3000 ++ repeatn 9 1096; repeatn 9 904 ++ [10]].
Proof. split; [exact ex_stream_ok | exact ex_roundtrip]. Qed.
Example C02_lzip_instance :
  exists f, lz_encode toy_penc (mkLzopts 5000 (Some 1)) [[1; 2; 3]; []; [4; 5]] = Ok f /\
            lz_decode toy_pdec lz_fixed f = Ok ([1; 2; 3; 4; 5], []).
Proof. exact ex_lzip_roundtrip. Qed.
