(* Properties/C06Containers.v — C06 for the container layer: the whole-file reader models of
   XZReader and LZIPReader (XzFormat.v: xz_decode, LzipFormat.v: lz_decode) are TOTAL on every
   input - any list of integers, in particular every byte string, well-formed, damaged or random:
   the result is Ok or Err, never Panic (slice index / unwrap / allocation) and never Fuel (the
   loops terminate within the fuel the model uses: S (length of the source) for the stream,
   block, index-record and member loops).  Only theorem statements, closed by [exact] of lemmas
   proved in Format/TotalProofs.v and Format/TotalChainProofs.v.

   The payload decoder is universally quantified; what is asked of it ([shrk 0]) is that it
   itself returns Ok or Err and never hands back more unread input than it was given (a reader
   cannot un-read; without this the models loop: C06_growing_rest_needs_fuel).  The totality of
   the LZMA / LZMA2 readers themselves is C06.v's subject (decoding core proved, framing run-checked).
   [fx11 fx = true]: the F11 repair (Vec::with_capacity of an untrusted record count); on the
   historical code the statement is false: C06_xz_index_alloc_refuted.
   Not covered here: the call-by-call models xzr_read / lzr_read (they inherit Panic/Fuel of
   lzma2_read / lzma1_read, which are not proved total on arbitrary input). *)
From LzVerif Require Import Base.Bytes Filter.Delta Format.XzFormat Format.LzipFormat Format.XzProofs
  Format.ContainerRefutations Format.TotalProofs Format.TotalChainProofs.

(* XZReader, any block decoder *)
Theorem C06_xz_decode_total :
  forall (H : Z -> list Z -> list Z) (blockdec : list (fkind * Z) -> list Z -> outcome (list Z * list Z)),
  (forall fs s, shrk 0 s (blockdec fs s)) ->
  forall fx multi f, fx11 fx = true -> total (xz_decode H blockdec fx multi f).
Proof. exact xz_decode_total. Qed.
Print Assumptions C06_xz_decode_total.

(* XZReader with the executable reader chain (Delta readers around the payload decoder; the chain
   of xz_decode_c and xz_decode_capped), any payload decoder: the Delta history index cannot leave
   its 256 entries *)
Theorem C06_xz_decode_chain_total :
  forall (pdec : Z -> list Z -> outcome (list Z * list Z)) fx multi f,
  (forall d s, shrk 0 s (pdec d s)) -> fx11 fx = true ->
  total (xz_decode xz_check_bytes (xz_blockdec_gen pdec) fx multi f).
Proof. exact xz_decode_chain_total. Qed.
Print Assumptions C06_xz_decode_chain_total.

(* the abstract chain of C02 / C12 (payload decoder, then total filter functions) *)
Theorem C06_xz_blockdec_shr :
  forall (pdec : Z -> list Z -> outcome (list Z * list Z)) (fdec : fkind -> Z -> list Z -> list Z),
  (forall d s, shrk 0 s (pdec d s)) -> forall fs s, shrk 0 s (blockdec pdec fdec fs s).
Proof. exact blockdec_shr. Qed.
Print Assumptions C06_xz_blockdec_shr.

(* LZIPReader, repaired (lz_fixed) and historical (lz_orig) header handling *)
Theorem C06_lzip_decode_total :
  forall (pdec : Z -> list Z -> outcome (list Z * list Z)),
  (forall d s, shrk 0 s (pdec d s)) ->
  forall fx f, total (lz_decode pdec fx f).
Proof. exact lz_decode_total. Qed.
Print Assumptions C06_lzip_decode_total.

(* F11: before the fix a record count of 2^63 - 1 in the index made Vec::with_capacity panic *)
Theorem C06_xz_index_alloc_refuted :
  xz_decode_c xz_orig false w_huge_index = Panic 62 /\ xz_decode_c xz_fixed false w_huge_index = Err E_INVALID_DATA.
Proof. exact (conj xz_index_alloc_refuted xz_index_alloc_fixed). Qed.
Print Assumptions C06_xz_index_alloc_refuted.

(* the hypothesis on the payload decoder is needed *)
Theorem C06_growing_rest_needs_fuel : lz_decode greedy_pdec lz_fixed [76; 90; 73; 80; 1; 12] = Fuel.
Proof. exact lz_decode_growing_rest_fuel. Qed.
Print Assumptions C06_growing_rest_needs_fuel.

(* non-vacuity: a payload decoder with the assumed property exists; the theorems apply to it on
   the hostile index file *)
Example C06_payload_decoder_exists :
  exists pdec : Z -> list Z -> outcome (list Z * list Z), forall d s, shrk 0 s (pdec d s).
Proof. exact shr_decoder_exists. Qed.
Example C06_instance :
  total (xz_decode xz_check_bytes (xz_blockdec_gen (fun _ s => Ok ([], s))) xz_fixed true w_huge_index) /\
  xz_decode xz_check_bytes (xz_blockdec_gen (fun _ s => Ok ([], s))) xz_fixed true w_huge_index = Err E_INVALID_DATA.
Proof. split; [|vm_compute; reflexivity]. apply C06_xz_decode_chain_total; [|reflexivity]. intros d s. cbn. lia. Qed.
