(* Properties/C05.v — truncation and I/O faults surface as errors, never as wrong or endless data.
   Only theorem statements, each closed by [exact] of a lemma proved elsewhere.
   PARTIAL: the theorems cover the retry layer every reader and writer of the crate goes through
   (read_exact / write_all over arbitrary scripts of short transfers, Interrupted and hard
   errors); the per-format reader models are tied to the code for truncation (EOF) by the
   lzmadec / container correspondences and for injected faults by the oracle of the iofault area. *)
From LzVerif Require Import Base.Bytes Io.Script Io.ScriptProofs.

(* For EVERY source script (any chopping into short reads, any number of Interrupted reports):
   read_exact n returns exactly the next n bytes of the script's byte content. *)
Theorem C05_read_exact_abstracts : forall fuel s n acc,
  script_ok s = true ->
  (length s + n < fuel)%nat ->
  (n <= length (script_bytes s))%nat ->
  exists s', read_exact fuel s n acc = (Ok (acc ++ firstn n (script_bytes s)), s') /\
             script_bytes s' = skipn n (script_bytes s) /\ script_end s' = script_end s /\
             script_ok s' = true /\ (length s' <= length s)%nat.
Proof. exact read_exact_abstracts. Qed.
Print Assumptions C05_read_exact_abstracts.

(* ... and if the content ends first, the call fails with the source's own error kind
   (UnexpectedEof for a clean end of the source): never Ok, never a substituted byte. *)
Theorem C05_read_exact_short : forall fuel s n acc,
  script_ok s = true ->
  (length s + n < fuel)%nat ->
  (length (script_bytes s) < n)%nat ->
  exists s', read_exact fuel s n acc = (Err (script_end s), s').
Proof. exact read_exact_short. Qed.
Print Assumptions C05_read_exact_short.

(* A sink that short-writes or reports Interrupted receives exactly the buffer. *)
Theorem C05_write_all_soft : forall fuel s buf taken,
  sink_soft s = true -> (length s + length buf < fuel)%nat ->
  exists s', write_all fuel s buf taken = (Ok tt, taken ++ buf, s').
Proof. exact write_all_soft. Qed.
Print Assumptions C05_write_all_soft.

(* Whatever the sink does, what it received is a prefix of what was submitted. *)
Theorem C05_write_all_prefix : forall fuel s buf taken r taken' s',
  write_all fuel s buf taken = (r, taken', s') -> exists p, taken' = taken ++ p /\ exists q, buf = p ++ q.
Proof. exact write_all_prefix. Qed.
Print Assumptions C05_write_all_prefix.

Example C05_script_example :
  read_exact 20 [RData [1; 2]; RInterrupted; RData [3]; RInterrupted; RData [4; 5; 6]] 4 [] =
    (Ok [1; 2; 3; 4], [RData [5; 6]]) /\
  read_exact 20 [RData [1; 2]; RFail 6] 4 [] = (Err 6, []).
Proof. vm_compute. split; reflexivity. Qed.
