open Proto
(* area "memusage" (C17): estimators and allocation model, Arith/MemUsage.v *)
let ckb s = (s = "1")
let u64max = zs "18446744073709551615"
let us_of s = if s = "-" then u64max else zs s
let pair_obs (o : (Big_int_Z.big_int * Big_int_Z.big_int) Model.outcome) = match o with
  | Model.Ok (a, e) -> "OK " ^ sz a ^ " " ^ sz e
  | Model.Err c -> "ERR " ^ sz c
  | Model.Panic _ -> "PANIC"
  | Model.Fuel -> "FUEL"
let install register =
  register "mu_enc" (function ck :: d :: lc :: lp :: mode :: mf :: _ ->
      outcome_z (Model.enc_estimate (ckb ck) (Model.mk_enc_params (zs d) (zs lc) (zs lp) (z 2) (zs mode) (zs mf) (z 64))) | _ -> "BADARGS");
  register "mu_enc_old" (function ck :: d :: lc :: lp :: mode :: mf :: _ ->
      outcome_z (Model.enc_estimate_old (ckb ck) (Model.mk_enc_params (zs d) (zs lc) (zs lp) (z 2) (zs mode) (zs mf) (z 64))) | _ -> "BADARGS");
  register "mu_dec" (function ck :: d :: lc :: lp :: _ -> outcome_z (Model.dec_estimate (ckb ck) (zs d) (zs lc) (zs lp)) | _ -> "BADARGS");
  register "mu_decp" (function ck :: d :: props :: _ -> outcome_z (Model.dec_estimate_by_props (ckb ck) (zs d) (zs props)) | _ -> "BADARGS");
  register "mu_dec2" (function ck :: d :: _ -> outcome_z (Model.dec2_estimate (ckb ck) (zs d)) | _ -> "BADARGS");
  register "mu_dec2_old" (function ck :: d :: _ -> outcome_z (Model.dec2_estimate_old (ckb ck) (zs d)) | _ -> "BADARGS");
  register "al_enc" (function ck :: kind :: d :: lc :: lp :: pb :: mode :: mf :: nice :: _ ->
      pair_obs (Model.obs_al_enc (ckb ck) (zs kind) (Model.mk_enc_params (zs d) (zs lc) (zs lp) (zs pb) (zs mode) (zs mf) (zs nice))) | _ -> "BADARGS");
  register "al_encr" (function ck :: d :: lc :: lp :: pb :: mode :: mf :: nice :: _ ->
      pair_obs (Model.obs_al_encr (ckb ck) (Model.mk_enc_params (zs d) (zs lc) (zs lp) (zs pb) (zs mode) (zs mf) (zs nice))) | _ -> "BADARGS");
  register "al_dec" (function ck :: d :: lc :: lp :: _pb :: us :: _ ->
      pair_obs (Model.obs_al_dec (ckb ck) (zs d) (zs lc) (zs lp) (us_of us)) | _ -> "BADARGS");
  register "al_dec2" (function ck :: d :: lclp :: np :: _ ->
      pair_obs (Model.obs_al_dec2 (ckb ck) (zs d) (zs lclp) (zs np)) | _ -> "BADARGS");
  register "memlimit" (function ck :: d :: props :: limit :: us :: rest :: _ ->
      (match Model.obs_memlimit (ckb ck) (zs props) (zs d) (us_of us) (zs limit) (unhex rest) with
       | (n, Model.Ok _) -> "OK " ^ sz n
       | (n, Model.Err c) -> "ERR " ^ sz c ^ " " ^ sz n
       | (_, Model.Panic _) -> "PANIC"
       | (_, Model.Fuel) -> "FUEL") | _ -> "BADARGS")
