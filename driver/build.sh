#!/bin/sh
# Builds the model driver: extraction (coqc) + ocamlfind ocamlopt with zarith.  Output: /verif/build/driver/driver
set -e
B=/verif/build/driver
mkdir -p $B
cd $B
coqc -Q /verif/coq LzVerif /verif/coq/Extract/Extract.v >extract.log 2>&1 || { cat extract.log; exit 1; }
cp /verif/driver/*.ml $B/
ocamlfind ocamlopt -package zarith -linkpkg -w -a -o driver model.mli model.ml handlers.ml main.ml
