(* driver/proto.ml — encoding helpers of the line protocol shared by all handlers.
   Bytes are hex strings ("-" = empty); lists of byte strings are comma separated ("." = empty list);
   integer lists are comma separated decimals ("." = empty). *)
let z = Big_int_Z.big_int_of_int
let zi = Big_int_Z.int_of_big_int
let zs = Big_int_Z.big_int_of_string
let sz = Big_int_Z.string_of_big_int

let unhex (s : string) : Big_int_Z.big_int list =
  if s = "-" then [] else begin
    let n = String.length s / 2 in
    let rec go i acc = if i < 0 then acc else
      go (i - 1) (z (int_of_string ("0x" ^ String.sub s (2 * i) 2)) :: acc) in
    go (n - 1) []
  end

let hex (l : Big_int_Z.big_int list) : string =
  if l = [] then "-" else begin
    let b = Buffer.create 64 in
    List.iter (fun x -> Buffer.add_string b (Printf.sprintf "%02x" (zi x))) l;
    Buffer.contents b
  end

let unhex_parts (s : string) : Big_int_Z.big_int list list =
  if s = "." then [] else List.map unhex (String.split_on_char ',' s)

let ints (s : string) : Big_int_Z.big_int list =
  if s = "." then [] else List.map zs (String.split_on_char ',' s)

let opt_bytes = function Some l -> "OK " ^ hex l | None -> "PANIC"

let outcome_z (o : Big_int_Z.big_int Model.outcome) = match o with
  | Model.Ok v -> "OK " ^ sz v
  | Model.Err c -> "ERR " ^ sz c
  | Model.Panic _ -> "PANIC"
  | Model.Fuel -> "FUEL"

let outcome_bytes (o : Big_int_Z.big_int list Model.outcome) = match o with
  | Model.Ok v -> "OK " ^ hex v
  | Model.Err c -> "ERR " ^ sz c
  | Model.Panic _ -> "PANIC"
  | Model.Fuel -> "FUEL"
