(* Script.v read_exact / write_all vs std's; truncation commands reuse the LZMA reader handlers.
   script items: D<hex> I F<kind> Z (sources) / A<n> I F<kind> Z (sinks), comma separated, "." empty *)
open Proto
let items s = if s = "." then [] else String.split_on_char ',' s
let rest it = String.sub it 1 (String.length it - 1)
let src_of s = List.map (fun it -> match it.[0] with
  | 'D' -> Model.RData (unhex (rest it)) | 'I' -> Model.RInterrupted
  | 'F' -> Model.RFail (zs (rest it)) | _ -> Model.REof) (items s)
let sink_of s = List.map (fun it -> match it.[0] with
  | 'A' -> Model.WAccept (zs (rest it)) | 'I' -> Model.WInterrupted
  | 'F' -> Model.WFail (zs (rest it)) | _ -> Model.WZero) (items s)

let install register =
  register "rx" (function script :: n :: _ ->
      (match Model.read_exact (z 1000000) (src_of script) (zs n) [] with
       | (Model.Ok b, s') -> "OK " ^ hex b ^ " " ^ hex (Model.script_bytes s')
       | (Model.Err k, _) -> "ERR" ^ sz k
       | _ -> "PANIC")
    | _ -> "BADARGS");
  register "wa" (function script :: buf :: _ ->
      (match Model.write_all (z 1000000) (sink_of script) (unhex buf) [] with
       | ((Model.Ok _, taken), _) -> "OK " ^ hex taken
       | ((Model.Err k, taken), _) -> "ERR" ^ sz k ^ " " ^ hex taken
       | _ -> "PANIC")
    | _ -> "BADARGS");
  register "fault_r" (fun _ -> "SKIP");
  register "fault_w" (fun _ -> "SKIP")
