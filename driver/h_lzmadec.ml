(* LZMAReader / LZMA2Reader models.  Observation:  END <out> <unconsumed> | ERR<code> <out> | CERR<code> | PANIC | FUEL *)
open Proto
let preset s = if s = "none" then None else Some (unhex s)
let fuel = z 100000000
let sizes s = ints s

let finish1 (o : Model.lzma1 Model.outcome) szs =
  match o with
  | Model.Err c -> "CERR" ^ sz c
  | Model.Panic _ -> "PANIC"
  | Model.Fuel -> "FUEL"
  | Model.Ok st ->
    let szl = sizes szs in
    let rec loop st (rest : Big_int_Z.big_int list) (acc : Big_int_Z.big_int list list) n =
      if n > 50000000 then "FUEL" else
      let (szv, rest') = match rest with [] -> (match szl with [] -> (z 4096, []) | x :: r -> (x, r)) | x :: r -> (x, r) in
      match Model.lzma1_read st szv with
      | Model.Ok (out, st1) ->
        if Big_int_Z.sign_big_int szv > 0 && out = [] then
          "END " ^ hex (List.concat (List.rev acc)) ^ " " ^ string_of_int (List.length (Model.lzma1_unconsumed st1))
        else loop st1 rest' (out :: acc) (n + 1)
      | Model.Err c -> "ERR" ^ sz c ^ " " ^ hex (List.concat (List.rev acc))
      | Model.Panic _ -> "PANIC"
      | Model.Fuel -> "FUEL" in
    loop st [] [] 0

let finish2 (o : Model.lzma2 Model.outcome) szs =
  match o with
  | Model.Err c -> "CERR" ^ sz c
  | Model.Panic _ -> "PANIC"
  | Model.Fuel -> "FUEL"
  | Model.Ok st ->
    let szl = sizes szs in
    let rec loop st (rest : Big_int_Z.big_int list) (acc : Big_int_Z.big_int list list) n =
      if n > 50000000 then "FUEL" else
      let (szv, rest') = match rest with [] -> (match szl with [] -> (z 4096, []) | x :: r -> (x, r)) | x :: r -> (x, r) in
      match Model.lzma2_read st szv with
      | Model.Ok (out, st1) ->
        if Big_int_Z.sign_big_int szv > 0 && out = [] then
          "END " ^ hex (List.concat (List.rev acc)) ^ " " ^ string_of_int (List.length (Model.m_in st1))
        else loop st1 rest' (out :: acc) (n + 1)
      | Model.Err c -> "ERR" ^ sz c ^ " " ^ hex (List.concat (List.rev acc))
      | Model.Panic _ -> "PANIC"
      | Model.Fuel -> "FUEL" in
    loop st [] [] 0

let unc s = if s = "-1" then zs "18446744073709551615" else zs s

let install register =
  register "lzma1_hdr" (function ml :: stream :: szs :: _ ->
      finish1 (Model.lzma1_new_mem_limit (unhex stream) (zs ml) None) szs | _ -> "BADARGS");
  register "lzma1_raw" (function u :: lc :: lp :: pb :: d :: pre :: stream :: szs :: _ ->
      finish1 (Model.lzma1_construct2 (unhex stream) (unc u) (zs lc) (zs lp) (zs pb) (zs d) (preset pre)) szs | _ -> "BADARGS");
  register "lzma1_props" (function u :: props :: d :: pre :: stream :: szs :: _ ->
      finish1 (Model.lzma1_construct1 (unhex stream) (unc u) (zs props) (zs d) (preset pre)) szs | _ -> "BADARGS");
  register "lzma2" (function d :: pre :: stream :: szs :: _ ->
      finish2 (Model.lzma2_new (unhex stream) (zs d) (preset pre)) szs | _ -> "BADARGS")
