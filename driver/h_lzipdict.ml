open Proto
let install register =
  register "lzip_dict_enc" (function d :: _ -> outcome_z (Model.lzip_encode_dict_size (zs d)) | _ -> "BADARGS");
  register "lzip_dict_enc_old" (function d :: _ -> outcome_z (Model.lzip_encode_dict_size_old (zs d)) | _ -> "BADARGS");
  register "lzip_dict_dec" (function d :: _ -> outcome_z (Model.lzip_decode_dict_size (zs d)) | _ -> "BADARGS");
  register "lzip_header_dict" (function d :: _ -> outcome_z (Model.lzip_header_dict (zs d)) | _ -> "BADARGS")
