(* Container models (XZ, LZIP): writers, readers (call-by-call + whole-file cross-check), format spec.
   Reader observation:  END <out> <unconsumed> | ERR<kind> <out of earlier calls> | PANIC | FUEL | SKIP
   (SKIP = the case is outside the executable model: BCJ filter chain; the harness prints the same). *)
open Proto

let optz s = if s = "-" then None else Some (zs s)
let filters s =
  if s = "." then [] else
  List.map (fun x -> match String.split_on_char ':' x with
      | [a; b] -> (zs a, zs b)
      | _ -> failwith "filters") (String.split_on_char ',' s)

let zeros_of_lens s = List.map (fun n -> List.init (zi n) (fun _ -> z 0)) (ints s)
let ints_out l = if l = [] then "." else String.concat "," (List.map sz l)

let outcome_ints (o : Big_int_Z.big_int list Model.outcome) = match o with
  | Model.Ok v -> "OK " ^ ints_out v
  | Model.Err c -> "ERR " ^ sz c
  | Model.Panic _ -> "PANIC"
  | Model.Fuel -> "FUEL"

(* drives a call-by-call reader model with the destination-size history (cycled; a zero size never
   ends the loop), exactly like the harness drives the implementation.  [cap] is an output budget:
   no call asks for more than cap + 1 - (bytes so far), and the run stops with CAP once more than
   cap bytes have been returned (damaged size fields can promise megabytes). *)
let drive (read : 'st -> Big_int_Z.big_int -> (Big_int_Z.big_int list * 'st) Model.outcome)
          (unconsumed : 'st -> Big_int_Z.big_int list) (st0 : 'st) (szs : string) (cap : int) : string =
  let szl = ints szs in
  let rec loop st rest acc total n =
    if n > 50000000 then "FUEL" else
    let (szv, rest') = match rest with
      | [] -> (match szl with [] -> (z 4096, []) | x :: r -> (x, r))
      | x :: r -> (x, r) in
    let want = min (zi szv) (cap + 1 - total) in
    match read st (z want) with
    | Model.Ok (out, st1) ->
      if want > 0 && out = [] then
        "END " ^ hex (List.concat (List.rev acc)) ^ " " ^ string_of_int (List.length (unconsumed st1))
      else begin
        let total1 = total + List.length out in
        if total1 > cap then "CAP " ^ hex (List.concat (List.rev (out :: acc)))
        else loop st1 rest' (out :: acc) total1 (n + 1)
      end
    | Model.Err c -> if zi c = 77 then "SKIP" else "ERR" ^ sz c ^ " " ^ hex (List.concat (List.rev acc))
    | Model.Panic _ -> "PANIC"
    | Model.Fuel -> "FUEL" in
  loop st0 [] [] 0 0

(* the whole-file function must agree with the call-by-call model on the final result (it runs
   with the same output budget per block; running out of it is not a disagreement) *)
let cross (obs : string) (whole : (Big_int_Z.big_int list * Big_int_Z.big_int list) Model.outcome) : string =
  if String.length obs >= 3 && String.sub obs 0 3 = "CAP" then obs else
  match whole with
  | Model.Fuel -> obs
  | _ ->
  let w = match whole with
    | Model.Ok (c, r) -> "END " ^ hex c ^ " " ^ string_of_int (List.length r)
    | Model.Err c -> if zi c = 77 then "SKIP" else "ERR" ^ sz c
    | Model.Panic _ -> "PANIC"
    | Model.Fuel -> "FUEL" in
  let agree =
    if String.length obs >= 3 && String.sub obs 0 3 = "ERR" then
      (match String.index_opt obs ' ' with Some i -> String.sub obs 0 i = w | None -> obs = w)
    else obs = w in
  if agree then obs else obs ^ " WHOLE-FILE-MODEL-DIFFERS:" ^ (if String.length w > 80 then String.sub w 0 80 else w)

let xz_read fx with_cross = function
  | multi :: skip :: file :: szs :: cap :: _ ->
    if skip = "1" then "SKIP" else
    let src = unhex file in
    let m = (multi = "1") in
    let cap = int_of_string cap in
    let obs = drive (Model.xzr_read fx) Model.xzr_unconsumed (Model.xzr_new src m) szs cap in
    if with_cross then cross obs (Model.xz_decode_capped fx m (z cap) src) else obs
  | _ -> "BADARGS"

let lzip_read fx with_cross = function
  | file :: szs :: cap :: _ ->
    let src = unhex file in
    let cap = int_of_string cap in
    let obs = drive (Model.lzr_read fx) Model.lzr_unconsumed (Model.lzr_new src) szs cap in
    if with_cross then cross obs (Model.lz_decode_capped fx (z cap) src) else obs
  | _ -> "BADARGS"

let install register =
  register "xz_write" (function c :: bs :: fl :: d :: parts :: pls :: _ ->
      outcome_bytes (Model.xz_write_entry Model.xz_fixed (zs c) (optz bs) (filters fl) (zs d) (unhex_parts parts) (unhex_parts pls)) | _ -> "BADARGS");
  register "xz_write_old" (function c :: bs :: fl :: d :: parts :: pls :: _ ->
      outcome_bytes (Model.xz_write_entry Model.xz_orig (zs c) (optz bs) (filters fl) (zs d) (unhex_parts parts) (unhex_parts pls)) | _ -> "BADARGS");
  register "xz_sizes" (function bs :: d :: lens :: _ ->
      outcome_ints (Model.xz_block_sizes_entry Model.xz_fixed (optz bs) (zs d) (zeros_of_lens lens)) | _ -> "BADARGS");
  register "xz_sizes_old" (function bs :: d :: lens :: _ ->
      outcome_ints (Model.xz_block_sizes_entry Model.xz_orig (optz bs) (zs d) (zeros_of_lens lens)) | _ -> "BADARGS");
  register "xz_read" (xz_read Model.xz_fixed true);
  register "xz_read_old" (xz_read Model.xz_orig false);
  register "xz_big" (function _ -> "SKIP");
  register "xz_spec" (function lenient :: skip :: file :: cap :: _ ->
      if skip = "1" then "SKIP" else
      (match Model.xz_spec_decode_capped (lenient = "1") (zs cap) (unhex file) with Some d -> "OK " ^ hex d | None -> "REJECT") | _ -> "BADARGS");
  register "lzip_write" (function d :: ms :: parts :: pls :: _ ->
      outcome_bytes (Model.lz_write_entry (zs d) (optz ms) (unhex_parts parts) (unhex_parts pls)) | _ -> "BADARGS");
  register "lzip_sizes" (function d :: ms :: lens :: _ ->
      outcome_ints (Model.lz_member_sizes_entry (zs d) (optz ms) (zeros_of_lens lens)) | _ -> "BADARGS");
  register "lzip_read" (lzip_read Model.lz_fixed true);
  register "lzip_read_old" (lzip_read Model.lz_orig false);
  register "lzip_spec" (function file :: cap :: _ ->
      (match Model.lz_spec_decode_capped (zs cap) (unhex file) with
       | Some (d, _) -> "OK " ^ hex d
       | None -> "REJECT") | _ -> "BADARGS")
