(* driver/handlers.ml — further command handlers, one block per model area. *)
let install (_register : string -> (string list -> string) -> unit) = ()
