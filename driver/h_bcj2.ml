(* driver/h_bcj2.ml — BCJ2: the reader model over four scripted inner readers (Filter/Bcj2.v) and the
   specification encoder (Filter/Bcj2Enc.v), which the harness compares with its reference encoder. *)
open Proto

let decisions (s : string) : bool list =
  if s = "." then [] else List.init (String.length s) (fun i -> s.[i] = '1')

let read_all old size ins sizes =
  match Model.bcj2_dec_script_gen old size ins sizes with
  | Model.Ok (bytes, None) -> "OK " ^ hex bytes
  | Model.Ok (bytes, Some c) -> "ERR " ^ sz c ^ " " ^ hex bytes
  | Model.Err c -> "ERR " ^ sz c
  | Model.Panic _ -> "PANIC"
  | Model.Fuel -> "FUEL"

let install register =
  register "bcj2_enc" (function d :: k :: _ ->
      let (((m, c), j), r) = Model.bcj2_encode (unhex d) (decisions k) in
      "OK " ^ hex m ^ "," ^ hex c ^ "," ^ hex j ^ "," ^ hex r
    | _ -> "BADARGS");
  register "bcj2_dec" (function size :: m :: c :: j :: r :: sizes :: _ ->
      read_all false (zs size) (((H_bcj.script m, H_bcj.script c), H_bcj.script j), H_bcj.script r) (ints sizes)
    | _ -> "BADARGS");
  (* the reader before repo-patches/16 (errors of an inner reader) *)
  register "bcj2_dec_old" (function size :: m :: c :: j :: r :: sizes :: _ ->
      read_all true (zs size) (((H_bcj.script m, H_bcj.script c), H_bcj.script j), H_bcj.script r) (ints sizes)
    | _ -> "BADARGS")
