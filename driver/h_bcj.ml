(* driver/h_bcj.ml — BCJ filters: BCJWriter under a call partition, BCJReader over an inner reader
   delivering given chunks and read with a cycle of destination sizes (mirror of the harness's
   util::read_with_sizes), and the stream-level specification. *)
open Proto

let arch_of = function
  | "x86" -> Model.X86 | "arm" -> Model.ARM | "armthumb" -> Model.ARMT | "arm64" -> Model.ARM64
  | "ppc" -> Model.PPC | "sparc" -> Model.SPARC | "ia64" -> Model.IA64 | "riscv" -> Model.RISCV
  | s -> failwith ("unknown arch " ^ s)

(* inner reader script: comma separated tokens, hex = a chunk ("-" = empty, dropped), "!<code>" =
   one failing read() call with that error kind *)
let script (s : string) : Model.inner_event list =
  if s = "." then [] else
  List.filter_map (fun t ->
      if String.length t > 0 && t.[0] = '!' then Some (Model.IErr (zs (String.sub t 1 (String.length t - 1))))
      else match unhex t with [] -> None | l -> Some (Model.IData l))
    (String.split_on_char ',' s)

let read_all a start evs sizes =
  match Model.bcj_dec_script a start evs sizes with
  | Model.Ok (bytes, None) -> "OK " ^ hex bytes
  | Model.Ok (bytes, Some c) -> "ERR " ^ sz c ^ " " ^ hex bytes
  | Model.Err c -> "ERR " ^ sz c
  | Model.Panic _ -> "PANIC"
  | Model.Fuel -> "FUEL"

let install register =
  register "bcj_enc" (function a :: s :: p :: _ -> outcome_bytes (Model.bcj_enc_parts (arch_of a) (zs s) (unhex_parts p)) | _ -> "BADARGS");
  (* same bytes must reach a sink that accepts only a few bytes per call (write_all in the writer) *)
  register "bcj_enc_short" (function a :: s :: p :: _ -> outcome_bytes (Model.bcj_enc_parts (arch_of a) (zs s) (unhex_parts p)) | _ -> "BADARGS");
  register "bcj_dec" (function a :: s :: p :: sizes :: _ -> read_all (arch_of a) (zs s) (script p) (ints sizes) | _ -> "BADARGS");
  register "bcj_spec" (function a :: dir :: s :: d :: _ -> outcome_bytes (Model.bcj_stream (arch_of a) (dir = "enc") (zs s) (unhex d)) | _ -> "BADARGS")
