(* driver/h_bcj.ml — BCJ filters: BCJWriter under a call partition, BCJReader over an inner reader
   delivering given chunks and read with a cycle of destination sizes (mirror of the harness's
   util::read_with_sizes), and the stream-level specification. *)
open Proto

let arch_of = function
  | "x86" -> Model.X86 | "arm" -> Model.ARM | "armthumb" -> Model.ARMT | "arm64" -> Model.ARM64
  | "ppc" -> Model.PPC | "sparc" -> Model.SPARC | "ia64" -> Model.IA64 | "riscv" -> Model.RISCV
  | s -> failwith ("unknown arch " ^ s)

let is_zero x = Big_int_Z.sign_big_int x = 0

let read_all a start parts sizes =
  let inner0 = Model.drop_empty parts in
  let fuel = Model.bcj_read_fuel inner0 in
  let sizes = Array.of_list sizes in
  let n = Array.length sizes in
  let all_zero = Array.for_all is_zero sizes in
  let buf = Buffer.create 4096 in
  let rec loop i st inner =
    let sz = if n = 0 then z 4096 else sizes.(i mod n) in
    match Model.bcj_read fuel a st inner sz with
    | Model.Ok ((bytes, st'), inner') ->
      if is_zero sz then begin
        if bytes <> [] then "ERR 6"
        else if all_zero && n > 0 then "OK " ^ (if Buffer.length buf = 0 then "-" else Buffer.contents buf)
        else loop (i + 1) st' inner'
      end else if bytes = [] then "OK " ^ (if Buffer.length buf = 0 then "-" else Buffer.contents buf)
      else begin
        List.iter (fun x -> Buffer.add_string buf (Printf.sprintf "%02x" (zi x))) bytes;
        loop (i + 1) st' inner'
      end
    | Model.Err c -> "ERR " ^ sz_of c
    | Model.Panic _ -> "PANIC"
    | Model.Fuel -> "FUEL"
  and sz_of c = sz c in
  loop 0 (Model.bcj_reader_new a start) inner0

let install register =
  register "bcj_enc" (function a :: s :: p :: _ -> outcome_bytes (Model.bcj_enc_parts (arch_of a) (zs s) (unhex_parts p)) | _ -> "BADARGS");
  (* same bytes must reach a sink that accepts only a few bytes per call (write_all in the writer) *)
  register "bcj_enc_short" (function a :: s :: p :: _ -> outcome_bytes (Model.bcj_enc_parts (arch_of a) (zs s) (unhex_parts p)) | _ -> "BADARGS");
  register "bcj_dec" (function a :: s :: p :: sizes :: _ -> read_all (arch_of a) (zs s) (unhex_parts p) (ints sizes) | _ -> "BADARGS");
  register "bcj_spec" (function a :: dir :: s :: d :: _ -> outcome_bytes (Model.bcj_stream (arch_of a) (dir = "enc") (zs s) (unhex d)) | _ -> "BADARGS")
