open Proto
let install register =
  register "delta_enc" (function d :: p :: _ -> opt_bytes (Model.delta_write_parts (zs d) (unhex_parts p)) | _ -> "BADARGS");
  register "delta_dec" (function d :: p :: _ -> opt_bytes (Model.delta_read_parts (zs d) (unhex_parts p)) | _ -> "BADARGS");
  register "delta_spec" (function d :: p :: _ -> "OK " ^ hex (Model.delta_spec_enc (zs d) [] (unhex p)) | _ -> "BADARGS")
