(* LZMAWriter / LZMA2Writer models driven by the implementation's symbol trace (verified validator).
   lzma1enc <opts> <variant> <preset|none> <parts> <trace>        -> OK <bytes> | BADTRACE | PANIC
   lzma2enc <opts> <chunk> <preset|none> <parts> <flushes> <trace> -> OK <bytes> | BADTRACE | PANIC
   opts = lc,lp,pb,dict,nice,mode,mf,depth ; trace items: L<hex> M<dist>.<len> R<idx>.<len> E W<u>.<c> U<u> N *)
open Proto

let parse_opts s = match List.map zs (String.split_on_char ',' s) with
  | lc :: lp :: pb :: dict :: _ -> (lc, lp, pb, dict)
  | _ -> failwith "opts"

let two s = match String.split_on_char '.' s with [a; b] -> (zs a, zs b) | _ -> failwith "pair"

let parse_sym (it : string) : Model.sym =
  let rest = String.sub it 1 (String.length it - 1) in
  match it.[0] with
  | 'L' -> Model.SLit (z (int_of_string ("0x" ^ rest)))
  | 'M' -> let (d, l) = two rest in Model.SMatch (d, l)
  | 'R' -> let (i, l) = two rest in Model.SRep (i, l)
  | 'E' -> Model.SEnd
  | _ -> failwith "sym"

let parse_l2 (it : string) : Model.l2ev =
  let rest = String.sub it 1 (String.length it - 1) in
  match it.[0] with
  | 'W' -> let (u, c) = two rest in Model.L2Lzma (u, c)
  | 'U' -> Model.L2Unc (zs rest)
  | 'N' -> Model.L2New
  | _ -> Model.L2Sym (parse_sym it)

let items s = if s = "." then [] else String.split_on_char ',' s

let out = function
  | Model.Ok b -> "OK " ^ hex b
  | Model.Err c -> if Big_int_Z.int_of_big_int c = 90 then "BADTRACE" else "ERR " ^ sz c
  | Model.Panic _ -> "PANIC"
  | Model.Fuel -> "FUEL"

let install register =
  register "lzma1enc" (function o :: variant :: pre :: parts :: trace :: _ ->
      let (lc, lp, pb, dict) = parse_opts o in
      let data = List.concat (unhex_parts parts) in
      let preset = if pre = "none" then [] else unhex pre in
      let syms = List.filter (fun s -> s <> Model.SEnd) (List.map parse_sym (items trace)) in
      let (hdr, marker, expected) = match variant with
        | "0" -> (true, true, None)
        | "1" -> (true, false, Some (z (List.length data)))
        | "2" -> (false, true, None)
        | _ -> (false, false, None) in
      out (Model.lzma1_write lc lp pb dict preset data syms hdr marker expected)
    | _ -> "BADARGS");
  register "lzma2enc" (function o :: _chunk :: pre :: parts :: _flushes :: trace :: _ ->
      let (lc, lp, pb, dict) = parse_opts o in
      let data = List.concat (unhex_parts parts) in
      let preset = if pre = "none" then None else Some (unhex pre) in
      out (Model.lzma2_write lc lp pb dict preset data (List.map parse_l2 (items trace)))
    | _ -> "BADARGS");
  register "dist_slot" (function d :: _ -> "OK " ^ sz (Model.get_dist_slot (zs d)) | _ -> "BADARGS")
