open Proto
(* area "options" (C19): outcome class of construct / write / finish, Arith/Options.v *)
let filter_code = function
  | "delta" -> 0 | "x86" -> 1 | "ppc" -> 2 | "ia64" -> 3 | "arm" -> 4 | "armthumb" -> 5
  | "sparc" -> 6 | "arm64" -> 7 | "riscv" -> 8 | _ -> 9
let filters_of s =
  if s = "." then [] else
    List.concat_map (fun f -> match String.split_on_char ':' f with
        | [n; p] -> [z (filter_code n); zs p] | _ -> [z 9; z 0]) (String.split_on_char ',' s)
let preset_of s =
  if s = "-" then z (-1) else if s = "e" then z 0 else zs (String.sub s 1 (String.length s - 1))
let stage = function 0 -> "new" | 1 -> "write" | _ -> "finish"
let install register =
  register "opt" (function ck :: kind :: d :: lc :: lp :: pb :: mode :: mf :: nice :: depth :: preset :: filters :: _dk :: len :: _ ->
      let o = Model.mk_lzma_opts (zs d) (zs lc) (zs lp) (zs pb) (zs mode) (zs mf) (zs nice) (zs depth) (preset_of preset) in
      (match Model.obs_opt (ck = "1") (zs kind) o (filters_of filters) (zs len) with
       | ((cls, code), st) ->
         (match zi cls with
          | 0 -> "OK"
          | 1 -> "ERR " ^ sz code ^ " " ^ stage (zi st)
          | _ -> "PANIC " ^ stage (zi st)))
    | _ -> "BADARGS")
