(* driver/main.ml — line-protocol front end over the extracted model (model.ml).
   Reads "id cmd args..." lines on stdin, prints "id RESULT" lines on stdout. Handlers live in
   h_<area>.ml files (each: let install register = ...), collected by build.sh. *)
let handlers : (string, string list -> string) Hashtbl.t = Hashtbl.create 64
let register name f = Hashtbl.replace handlers name f
let () = Handlers_gen.install_all register

let () =
  (try
    while true do
      let line = input_line stdin in
      match String.split_on_char ' ' (String.trim line) with
      | id :: cmd :: args ->
        let res =
          match Hashtbl.find_opt handlers cmd with
          | None -> "NOCMD"
          | Some f -> (try f args with Stack_overflow -> "STACKOVERFLOW" | e -> "EXN " ^ Printexc.to_string e)
        in
        print_string id; print_char ' '; print_endline res
      | _ -> ()
    done
  with End_of_file -> ());
  flush stdout
