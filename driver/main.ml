(* driver/main.ml — line-protocol front end over the extracted model (model.ml).
   Reads "id cmd args..." lines on stdin, prints "id RESULT" lines on stdout.
   Bytes are hex strings ("-" = empty); lists of byte strings are comma separated ("." = empty list). *)

let z = Big_int_Z.big_int_of_int
let zi = Big_int_Z.int_of_big_int
let zs = Big_int_Z.big_int_of_string

let unhex (s : string) : Big_int_Z.big_int list =
  if s = "-" then [] else begin
    let n = String.length s / 2 in
    let rec go i acc = if i < 0 then acc else
      go (i - 1) (z (int_of_string ("0x" ^ String.sub s (2 * i) 2)) :: acc) in
    go (n - 1) []
  end

let hex (l : Big_int_Z.big_int list) : string =
  if l = [] then "-" else begin
    let b = Buffer.create 64 in
    List.iter (fun x -> Buffer.add_string b (Printf.sprintf "%02x" (zi x))) l;
    Buffer.contents b
  end

let unhex_parts (s : string) : Big_int_Z.big_int list list =
  if s = "." then [] else List.map unhex (String.split_on_char ',' s)

let ints (s : string) : Big_int_Z.big_int list =
  if s = "." then [] else List.map zs (String.split_on_char ',' s)

let opt_bytes = function Some l -> "OK " ^ hex l | None -> "PANIC"

let outcome_z (o : Big_int_Z.big_int Model.outcome) = match o with
  | Model.Ok v -> "OK " ^ Big_int_Z.string_of_big_int v
  | Model.Err c -> "ERR " ^ Big_int_Z.string_of_big_int c
  | Model.Panic _ -> "PANIC"
  | Model.Fuel -> "FUEL"

let outcome_bytes (o : Big_int_Z.big_int list Model.outcome) = match o with
  | Model.Ok v -> "OK " ^ hex v
  | Model.Err c -> "ERR " ^ Big_int_Z.string_of_big_int c
  | Model.Panic _ -> "PANIC"
  | Model.Fuel -> "FUEL"

let handlers : (string, string list -> string) Hashtbl.t = Hashtbl.create 64
let register name f = Hashtbl.replace handlers name f

let () =
  register "delta_enc" (function d :: p :: _ -> opt_bytes (Model.delta_write_parts (zs d) (unhex_parts p)) | _ -> "BADARGS");
  register "delta_dec" (function d :: p :: _ -> opt_bytes (Model.delta_read_parts (zs d) (unhex_parts p)) | _ -> "BADARGS");
  register "delta_spec" (function d :: p :: _ -> "OK " ^ hex (Model.delta_spec_enc (zs d) [] (unhex p)) | _ -> "BADARGS");
  register "lzip_dict_enc" (function d :: _ -> outcome_z (Model.lzip_encode_dict_size (zs d)) | _ -> "BADARGS");
  register "lzip_dict_enc_old" (function d :: _ -> outcome_z (Model.lzip_encode_dict_size_old (zs d)) | _ -> "BADARGS");
  register "lzip_dict_dec" (function d :: _ -> outcome_z (Model.lzip_decode_dict_size (zs d)) | _ -> "BADARGS");
  register "lzip_header_dict" (function d :: _ -> outcome_z (Model.lzip_header_dict (zs d)) | _ -> "BADARGS");
  Handlers.install register

let () =
  (try
    while true do
      let line = input_line stdin in
      match String.split_on_char ' ' (String.trim line) with
      | id :: cmd :: args ->
        let res =
          match Hashtbl.find_opt handlers cmd with
          | None -> "NOCMD"
          | Some f -> (try f args with Stack_overflow -> "STACKOVERFLOW" | e -> "EXN " ^ Printexc.to_string e)
        in
        print_string id; print_char ' '; print_endline res
      | _ -> ()
    done
  with End_of_file -> ());
  flush stdout
