(* Twins (C14/C15): renormalisation, decode_direct_bits (portable / assembly / dispatch),
   extend_match, get_match_len_fast_reject, aligned allocation; biased encoder runs.
   norm <off> <align> <i32 list> <lanes(0=scalar build)>            -> OK <scalar> <dispatch> | PANIC
   dbits <buf> <pos> <range> <code> <count> <asm|noasm>             -> OK <portable> <asm|-> <dispatch>
   xmatch <buf> <read_pos> <cur_len> <distance> <limit> <flags>     -> OK <n> | PANIC      flags: c|- o|-
   freject <buf> <read_pos> <dist> <len_limit> <flags>              -> OK <n> | PANIC
   aalloc <min_length> <flags>                                      -> OK <len> 0 1 | NONE | PANIC
   lzma1encb / lzma2encb <k> <args of lzma1enc / lzma2enc>          -> as lzma1enc / lzma2enc *)
open Proto

let ilist (l : Big_int_Z.big_int list) = if l = [] then "." else String.concat "," (List.map sz l)

let quad = function
  | Model.Ok (((v, r), c), p) -> Printf.sprintf "%s,%s,%s,%s" (sz v) (sz r) (sz c) (sz p)
  | Model.Err _ -> "E"
  | Model.Panic _ -> "X"
  | Model.Fuel -> "FUEL"

let flags s = (String.length s > 0 && s.[0] = 'c', String.length s > 1 && s.[1] = 'o')

let install register =
  register "norm" (function off :: align :: l :: lanes :: _ ->
      let off = zs off and l = ints l in
      let lanes = int_of_string lanes and align = int_of_string align in
      let simd = lanes > 0 in
      let pre = if simd then (lanes - (align mod lanes)) mod lanes else 0 in
      (match Model.normalize_scalar l off, Model.normalize_dispatch simd (z lanes) (z pre) l off with
       | Model.Ok a, Model.Ok b -> "OK " ^ ilist a ^ " " ^ ilist b
       | _ -> "PANIC")
    | _ -> "BADARGS");
  register "norm_old" (function off :: align :: l :: lanes :: _ ->
      let off = zs off and l = ints l in
      let lanes = int_of_string lanes and align = int_of_string align in
      let simd = lanes > 0 in
      let pre = if simd then (lanes - (align mod lanes)) mod lanes else 0 in
      (match Model.normalize_dispatch_old simd (z lanes) (z pre) l off with
       | Model.Ok b -> "OK " ^ ilist (Model.normalize_scalar_old l off) ^ " " ^ ilist b
       | _ -> "PANIC")
    | _ -> "BADARGS");
  register "dbits" (function buf :: pos :: range :: code :: count :: asm :: _ ->
      let buf = unhex buf and pos = zs pos and range = zs range and code = zs code and count = zs count in
      let has_asm = (asm = "asm") in
      let p = quad (Model.direct_bits_rust_loop buf pos range code count) in
      let a = if has_asm && Big_int_Z.sign_big_int count > 0 then quad (Model.direct_bits_asm buf pos range code count) else "-" in
      let d = quad (Model.direct_bits_dispatch has_asm buf pos range code count) in
      "OK " ^ p ^ " " ^ a ^ " " ^ d
    | _ -> "BADARGS");
  register "dbits_old" (function buf :: pos :: range :: code :: count :: asm :: _ ->
      let buf = unhex buf and pos = zs pos and range = zs range and code = zs code and count = zs count in
      let has_asm = (asm = "asm") in
      let p = quad (Model.direct_bits_rust_loop buf pos range code count) in
      let a = if has_asm && Big_int_Z.sign_big_int count > 0 then quad (Model.direct_bits_asm buf pos range code count) else "-" in
      let d = quad (Model.direct_bits_dispatch_old has_asm buf pos range code count) in
      "OK " ^ p ^ " " ^ a ^ " " ^ d
    | _ -> "BADARGS");
  register "xmatch" (function buf :: rp :: cl :: d :: lim :: fl :: _ ->
      let (checked, opt) = flags fl in
      outcome_z (Model.extend_match checked opt (unhex buf) (zs rp) (zs cl) (zs d) (zs lim))
    | _ -> "BADARGS");
  register "freject" (function buf :: rp :: d :: lim :: fl :: _ ->
      let (checked, opt) = flags fl in
      outcome_z (Model.match_len_fast_reject checked opt (unhex buf) (zs rp) (zs d) (zs lim))
    | _ -> "BADARGS");
  register "aalloc" (function n :: fl :: _ ->
      if not (snd (flags fl)) then "NONE" else
      (match Model.aligned_alloc (fst (flags fl)) (zs n) with
       | Model.Ok (_, tl) -> "OK " ^ sz tl ^ " 0 1"
       | _ -> "PANIC")
    | _ -> "BADARGS");
  register "lzma1encb" (function _k :: o :: variant :: pre :: parts :: trace :: _ ->
      let (lc, lp, pb, dict) = H_lzmaenc.parse_opts o in
      let data = List.concat (unhex_parts parts) in
      let preset = if pre = "none" then [] else unhex pre in
      let syms = List.filter (fun s -> s <> Model.SEnd) (List.map H_lzmaenc.parse_sym (H_lzmaenc.items trace)) in
      let (hdr, marker, expected) = match variant with
        | "0" -> (true, true, None)
        | "1" -> (true, false, Some (z (List.length data)))
        | "2" -> (false, true, None)
        | _ -> (false, false, None) in
      H_lzmaenc.out (Model.lzma1_write lc lp pb dict preset data syms hdr marker expected)
    | _ -> "BADARGS");
  register "lzma2encb" (function _k :: o :: _chunk :: pre :: parts :: _flushes :: trace :: _ ->
      let (lc, lp, pb, dict) = H_lzmaenc.parse_opts o in
      let data = List.concat (unhex_parts parts) in
      let preset = if pre = "none" then None else Some (unhex pre) in
      H_lzmaenc.out (Model.lzma2_write lc lp pb dict preset data (List.map H_lzmaenc.parse_l2 (H_lzmaenc.items trace)))
    | _ -> "BADARGS")
