(* Position-accounting model of the encoder window (Codec/EncWindow.v) replaying the decisions of
   the real parser / range coder:
   pure1 <opts> <variant> <preset|none> <data> <opsA> <opsB> <decisionsA> <decisionsB>
   pure2 <opts> <wrapper> <chunk|0> <preset|none> <data> <opsA> <opsB> <decisionsA> <decisionsB>
   purem ...                                   (implementation only: the theorem's prediction SAME)
   lzexp <opts> <expected|none> <seed> <ops> <decisions>
   opts = lc,lp,pb,dict,nice,mode,mf,depth; ops: n = write of n bytes, f = flush, F = finish;
   decisions: <moves>.<len>[!] per consultation, K<csize> per chunk. *)
open Proto

let parse_opts s = match List.map int_of_string (String.split_on_char ',' s) with
  | _lc :: _lp :: _pb :: dict :: nice :: mode :: mf :: _ -> (z dict, z nice, mode = 1, mf = 1)
  | _ -> failwith "opts"

let items s = if s = "." then [] else String.split_on_char ',' s

let parse_ops (s : string) (total : int) (implicit_finish : bool) : Model.wop list =
  (* the harness clamps a write to the data that is left *)
  let left = ref total in
  let ops = List.map (fun t -> match t with
    | "f" -> Model.WoFlush
    | "F" -> Model.WoFinish
    | n -> let n = int_of_string n in let n = if total < 0 then n else min n !left in
           if total >= 0 then left := !left - n; Model.WoWrite (z n)) (items s) in
  if implicit_finish then ops @ [Model.WoFinish] else ops

let parse_decisions (s : string) : Model.ditem list =
  List.map (fun it ->
    if it.[0] = 'K' then Model.DChunk (zs (String.sub it 1 (String.length it - 1)))
    else begin
      let full = it.[String.length it - 1] = '!' in
      let it = if full then String.sub it 0 (String.length it - 1) else it in
      match String.split_on_char '.' it with
      | [m; l] -> Model.DSym (zs m, zs l, full)
      | _ -> failwith "decision"
    end) (items s)

let i64 (x : Big_int_Z.big_int) : int64 = Big_int_Z.int64_of_big_int x

(* the events of the position hook, as (kind, a, b, c) *)
let ev_tuple (e : Model.wev) : (char * Big_int_Z.big_int * Big_int_Z.big_int * Big_int_Z.big_int) option =
  let o = z 0 in
  match e with
  | Model.EvPos (rp, ret) -> Some ('P', rp, ret, o)
  | Model.EvMove (off, size) -> Some ('M', off, size, o)
  | Model.EvFill (offered, used) -> Some ('F', offered, used, o)
  | Model.EvConsult (rp, avail, ra) -> Some ('C', rp, avail, ra)
  | Model.EvSym (len, ra) -> Some ('A', len, ra, o)
  | Model.EvChunk (u, c, ra) -> Some ('K', u, c, ra)
  | Model.EvCopy (start, len) -> Some ('X', start, len, o)
  | _ -> None

let fnv_step (h : int64) (v : int64) : int64 = Int64.mul (Int64.logxor h v) 0x100000001b3L

let summarise (status : string) (evs : Model.wev list) (res : Model.opres list) : string =
  let cnt = Hashtbl.create 16 in
  let bump k = Hashtbl.replace cnt k (1 + (try Hashtbl.find cnt k with Not_found -> 0)) in
  let get k = try Hashtbl.find cnt k with Not_found -> 0 in
  let h = ref 0xcbf29ce484222325L in
  let acc = ref (z 0) and sym = ref (z 0) in
  List.iter (fun e ->
    (match e with
     | Model.EvLzma _ -> bump 'W' | Model.EvUnc _ -> bump 'U' | Model.EvNew -> bump 'N'
     | Model.EvFill (_, used) -> acc := Big_int_Z.add_big_int !acc used
     | Model.EvSym (len, _) -> sym := Big_int_Z.add_big_int !sym len
     | _ -> ());
    match ev_tuple e with
    | Some (k, a, b, c) ->
      bump k;
      h := fnv_step !h (Int64.of_int (Char.code k));
      h := fnv_step !h (i64 a); h := fnv_step !h (i64 b); h := fnv_step !h (i64 c)
    | None -> ()) evs;
  let ret = List.fold_left (fun s r -> match r with Model.RWrote n -> Big_int_Z.add_big_int s n | _ -> s) (z 0) res in
  Printf.sprintf "%s;P=%d;M=%d;F=%d;C=%d;A=%d;K=%d;X=%d;W=%d;U=%d;N=%d;acc=%s;sym=%s;ret=%s;dg=%016Lx"
    status (get 'P') (get 'M') (get 'F') (get 'C') (get 'A') (get 'K') (get 'X') (get 'W') (get 'U') (get 'N')
    (sz !acc) (sz !sym) (sz ret) !h

(* what two runs must share to produce the same bytes: symbol lengths and chunk decisions *)
let shape (evs : Model.wev list) : string list =
  List.filter_map (fun e -> match e with
    | Model.EvSym (len, _) -> Some ("S" ^ sz len)
    | Model.EvLzma (u, c) -> Some ("W" ^ sz u ^ "." ^ sz c)
    | Model.EvUnc u -> Some ("U" ^ sz u)
    | Model.EvNew -> Some "N"
    | _ -> None) evs

let run_out = function
  | Model.Ok ((evs, res), left) ->
    if left <> [] then ("LEFTOVER" ^ string_of_int (List.length left), evs, res) else ("ok", evs, res)
  | Model.Err c -> ("ERR" ^ sz c, [], [])
  | Model.Panic _ -> ("PANIC", [], [])
  | Model.Fuel -> ("FUEL", [], [])

let two_runs (ra : _) (rb : _) : string =
  let (sa, ea, resa) = run_out ra and (sb, eb, resb) = run_out rb in
  let same = sa = "ok" && sb = "ok" && shape ea = shape eb in
  Printf.sprintf "OK %s %s %s" (if same then "SAME" else "DIFF") (summarise sa ea resa) (summarise sb eb resb)

let install register =
  register "pure1" (function o :: variant :: pre :: data :: opsa :: opsb :: dsa :: dsb :: _ ->
      let (dict, nice, normal, bt4) = parse_opts o in
      let total = if data = "-" then 0 else String.length data / 2 in
      let preset = if pre = "none" then None else Some (z (String.length pre / 2)) in
      let dict = if variant = "4" then Big_int_Z.max_big_int (z 4096) (Big_int_Z.min_big_int dict (z (512 lsl 20))) else dict in
      let expected = if variant = "1" then Some (z total) else None in
      let run ops ds = Model.l1_replay normal bt4 dict nice preset expected (parse_ops ops total true) (parse_decisions ds) in
      two_runs (run opsa dsa) (run opsb dsb)
    | _ -> "BADARGS");
  register "pure2" (function o :: _wrapper :: chunk :: pre :: data :: opsa :: opsb :: dsa :: dsb :: _ ->
      let (dict, nice, normal, bt4) = parse_opts o in
      let total = if data = "-" then 0 else String.length data / 2 in
      let preset = if pre = "none" then None else Some (z (String.length pre / 2)) in
      let chunk = if chunk = "0" then None else Some (zs chunk) in
      let run ops ds = Model.l2_replay (z 0) normal bt4 dict nice preset chunk (parse_ops ops total true) (parse_decisions ds) in
      two_runs (run opsa dsa) (run opsb dsb)
    | _ -> "BADARGS");
  register "purem" (function _ -> "OK SAME");
  (* no panic for any slice length (lzma1_run_exact); the run ends with the sink's error (kind Other) *)
  register "huge1" (function _ -> "ERR 6");
  let lzexp with_header = (function o :: expected :: _seed :: ops :: ds :: _ ->
      let (dict, nice, normal, bt4) = parse_opts o in
      let expected = if expected = "none" then None else Some (zs expected) in
      (match Model.l1_replay normal bt4 dict nice None expected (parse_ops ops (-1) false) (parse_decisions ds) with
       | Model.Ok ((evs, res), left) ->
         let finished = List.exists (fun e -> e = Model.EvEnd) evs in
         let rs = List.map (function Model.RWrote n -> "W" ^ sz n | Model.RRej c -> "E" ^ sz c | Model.RDone -> "D") res in
         let hdr = if finished && with_header then hex (Model.le_bytes (z 8) (match expected with Some e -> e | None -> zs "18446744073709551615")) else "-" in
         let acc = List.fold_left (fun s e -> match e with Model.EvFill (_, u) -> Big_int_Z.add_big_int s u | _ -> s) (z 0) evs in
         let sym = List.fold_left (fun s e -> match e with Model.EvSym (l, _) -> Big_int_Z.add_big_int s l | _ -> s) (z 0) evs in
         let h = ref 0xcbf29ce484222325L in
         List.iter (fun e -> match ev_tuple e with
           | Some (k, a, b, c) -> h := fnv_step !h (Int64.of_int (Char.code k)); h := fnv_step !h (i64 a); h := fnv_step !h (i64 b); h := fnv_step !h (i64 c)
           | None -> ()) evs;
         if left <> [] then "LEFTOVER" else
         Printf.sprintf "OK %s hdr=%s acc=%s sym=%s dg=%016Lx" (if rs = [] then "." else String.concat "," rs) hdr (sz acc) (sz sym) !h
       | Model.Err c -> "ERR " ^ sz c
       | Model.Panic _ -> "PANIC"
       | Model.Fuel -> "FUEL")
    | _ -> "BADARGS") in
  register "lzexp" (lzexp true);
  register "lzexpn" (lzexp false);
  register "lzexpm" (lzexp true)
