(* driver/h_mt.ml — area "mt": the protocol model (Mt/Protocol.v) replays the event trace of the real
   MT code (Mt/Trace.v) and reports the outcome it ends in; unit cutting (Mt/Units.v). *)
open Proto

let nat_of_int n = z (if n <= 0 then 0 else n)   (* nat is extracted to zarith integers *)
let int_of_nat n = zi n

let split_on c s = if s = "" then [] else String.split_on_char c s

(* "hex" or "hex@n" *)
let parse_input s =
  match String.index_opt s '@' with
  | Some i -> (unhex (String.sub s 0 i), Some (int_of_string (String.sub s (i + 1) (String.length s - i - 1))))
  | None -> (unhex s, None)

let parse_trace s =
  if s = "-" then []
  else
    List.map
      (fun e ->
        match String.split_on_char '.' e with
        | [ t; k; a ] -> ((nat_of_int (int_of_string t), nat_of_int (int_of_string k)), zs a)
        | _ -> failwith "bad trace entry")
      (String.split_on_char ',' s)

(* unit function: units whose worker reported a failure (event 48: seq * 256 + code) *)
let table_of_trace tr =
  List.filter_map
    (fun ((_, k), a) ->
      if int_of_nat k = 48 then
        let v = Big_int_Z.int_of_big_int a in
        Some (nat_of_int (v / 256), z (v mod 256))
      else None)
    tr

let cfg_of kind workers orig =
  let k = if kind = "lzma2r" || kind = "lzipr" then Model.Reader else Model.Writer in
  let spawn_new = kind <> "lzipr" in
  if orig then Model.orig_cfg k (nat_of_int workers) spawn_new else Model.fixed_cfg k (nat_of_int workers) spawn_new

(* source script of a reader; None: the object is not even created (LZIPReaderMT::new fails) *)
let script_of kind input =
  match kind with
  | "lzma2r" -> (
      let bytes, fail = parse_input input in
      match fail with
      | None -> Ok (Model.lzma2_script bytes)
      | Some n -> Ok (Model.lzma2_script_io bytes (nat_of_int n)))
  | "lzipr" -> (
      let bytes, _ = parse_input input in
      match Model.scan_members bytes with
      | Model.Ok l -> Ok (Model.lzip_script (nat_of_int (List.length l)))
      | Model.Err c -> Error (sz c)
      | _ -> Error "X")
  | _ -> Ok []

let outcome_string ?(members = -1) kind f c s =
  let reader = kind = "lzma2r" || kind = "lzipr" in
  match int_of_nat (Model.outcome_class f c s) with
  | 0 ->
      (* the caller of the harness stops at the first end-of-data or error *)
      let rec first = function
        | [] -> "P"
        | Model.RNone :: _ -> "N"
        | Model.RErr e :: _ -> "E" ^ sz e
        | _ :: t -> first t
      in
      let fin = first s.Model.results in
      if reader then
        Printf.sprintf "OK %s nr=%d sp=%d" fin
          (if members >= 0 then members else int_of_nat s.Model.nr) (* LZIPReaderMT: member_count() *)
          (List.length s.Model.ws)
      else Printf.sprintf "OK %s sp=%d" fin (List.length s.Model.ws)
  | 1 -> "DEADLOCK"
  | 2 -> "LEAK"
  | _ -> "RUNNING"

let install register =
  register "mt" (function
    | kind :: workers :: input :: _drop :: trace :: rest -> (
        let orig = List.mem "orig" rest in
        let c = cfg_of kind (int_of_string workers) orig in
        match script_of kind input with
        | Error code -> Printf.sprintf "OK E%s nr=0 sp=0" code
        | Ok script ->
            let tr = parse_trace trace in
            let f = Model.f_of_table (table_of_trace tr) in
            let n, cands = Model.accept f c [ Model.init c script [] ] tr (z 0) in
            (match cands with
            | [] -> Printf.sprintf "REJECT event %d of %d" (int_of_nat n) (List.length tr)
            | s :: _ ->
                let members = if kind = "lzipr" then List.length script - 1 else -1 in
                outcome_string ~members kind f c (Model.auto_drop c s)))
    | _ -> "BADARGS");
  (* a schedule in model steps (0 = caller, i = worker i) run on the model, then completed by the
     deterministic scheduler; caller program: read until the end / the planned writes, then drop *)
  register "mt_sched" (function
    | kind :: workers :: input :: drop :: sched :: rest -> (
        let orig = List.mem "orig" rest in
        let c = cfg_of kind (int_of_string workers) orig in
        match script_of kind input with
        | Error code -> Printf.sprintf "OK E%s nr=0 sp=0" code
        | Ok script ->
            let tids =
              if sched = "-" then []
              else
                List.map
                  (fun x -> let i = int_of_string x in if i = 0 then Model.Co (z 0) else Model.Wk (nat_of_int (i - 1)))
                  (String.split_on_char ',' sched)
            in
            (* the failing units of the scenario are given after the schedule: "bad=<i>,<j>:<code>" *)
            let tbl =
              List.concat_map
                (fun a ->
                  if String.length a > 4 && String.sub a 0 4 = "bad=" then
                    match String.split_on_char ':' (String.sub a 4 (String.length a - 4)) with
                    | [ l; code ] -> List.map (fun q -> (nat_of_int (int_of_string q), zs code)) (String.split_on_char ',' l)
                    | _ -> []
                  else [])
                rest
            in
            let f = Model.f_of_table tbl in
            let reads = if drop = "end" then 64 else int_of_string drop in
            let prog =
              if kind = "lzma2r" || kind = "lzipr" then List.init reads (fun _ -> Model.OpRead) @ [ Model.OpDrop ]
              else
                List.concat_map
                  (fun a ->
                    if String.length a > 5 && String.sub a 0 5 = "prog=" then
                      List.map
                        (function
                          | "W" -> Model.OpWrite true | "w" -> Model.OpWrite false | "f" -> Model.OpFlush
                          | "F" -> Model.OpFinish | _ -> Model.OpDrop)
                        (String.split_on_char ',' (String.sub a 5 (String.length a - 5)))
                    else [])
                  rest
            in
            let s0 = Model.run f c (Model.init c script prog) tids in
            let s, _ = Model.run_auto f c s0 true (nat_of_int 20000) in
            (* the caller of the harness stops reading at the first error / end: later reads of the model
               program only repeat the final answer, the classes are the same *)
            let members = if kind = "lzipr" then List.length script - 1 else -1 in
            outcome_string ~members kind f c s)
    | _ -> "BADARGS");
  register "mt_cut" (function
    | h :: _ ->
        let cr = Model.cut_lzma2 (unhex h) in
        let n = List.length cr.Model.cr_units in
        let e = match cr.Model.cr_end with Some _ -> true | None -> n = 0 in
        Printf.sprintf "OK units=%d src=%s" n (if e then "E" else "N")
    | _ -> "BADARGS");
  register "mt_scan" (function
    | h :: _ -> (
        match Model.scan_members (unhex h) with
        | Model.Ok l -> Printf.sprintf "OK %d" (List.length l)
        | Model.Err c -> "ERR " ^ sz c
        | Model.Panic _ -> "PANIC"
        | Model.Fuel -> "FUEL")
    | _ -> "BADARGS")
