//! lzverif-nostd: executes LZMA / LZMA2 encoder and decoder command lines (the formats of the
//! areas lzmaenc and lzmadec of the std harness) against the crate built WITHOUT its `std`
//! feature, through the crate's own Read / Write / Error types.
//!   lzverif-nostd exec <cases.txt ("id cmd args...")> <outdir>     writes <outdir>/impl.txt
//! Observations use the same strings as the std harness: OK <hex> | ERR<kind> | PANIC for the
//! writers, END <out> <unconsumed> | ERR<kind> <out> | CERR<kind> | PANIC for the readers.
use lzma_rust2::{EncodeMode, Error, LZMA2Options, LZMA2Reader, LZMA2Writer, LZMAOptions, LZMAReader, LZMAWriter, MFType, Read, Write};
use std::fmt::Write as FmtWrite;
use std::num::NonZeroU64;
use std::panic::{catch_unwind, AssertUnwindSafe};
use std::sync::atomic::{AtomicUsize, Ordering};
use std::sync::{Arc, Mutex};

fn hex(b: &[u8]) -> String {
    if b.is_empty() {
        return "-".to_string();
    }
    let mut s = String::with_capacity(b.len() * 2);
    for x in b {
        let _ = write!(s, "{:02x}", x);
    }
    s
}

fn unhex(s: &str) -> Vec<u8> {
    if s == "-" {
        return Vec::new();
    }
    let b = s.as_bytes();
    (0..b.len() / 2).map(|i| ((b[2 * i] as char).to_digit(16).unwrap() as u8) << 4 | (b[2 * i + 1] as char).to_digit(16).unwrap() as u8).collect()
}

fn unhex_parts(s: &str) -> Vec<Vec<u8>> {
    if s == "." { Vec::new() } else { s.split(',').map(unhex).collect() }
}

/// The crate's no_std error enum -> the small enum of Base/Bytes.v (the same numbers the std
/// harness derives from std::io::ErrorKind).
fn err_code(e: &Error) -> u32 {
    match e {
        Error::InvalidData(_) => 1,
        Error::InvalidInput(_) => 2,
        Error::EOF => 3,
        Error::OutOfMemory(_) => 4,
        Error::Unsupported(_) => 5,
        Error::Other(_) => 6,
        Error::WriteZero(_) => 7,
        Error::Interrupted => 8,
    }
}

fn opts(s: &str, preset: Option<Vec<u8>>) -> (LZMAOptions, u32, u32, u32, u32) {
    let v: Vec<i64> = s.split(',').map(|x| x.parse().unwrap()).collect();
    let mut o = LZMAOptions::new(
        v[3] as u32,
        v[0] as u32,
        v[1] as u32,
        v[2] as u32,
        if v[5] == 0 { EncodeMode::Fast } else { EncodeMode::Normal },
        v[4] as u32,
        if v[6] == 0 { MFType::HC4 } else { MFType::BT4 },
        v[7] as i32,
    );
    o.preset_dict = preset;
    (o, v[0] as u32, v[1] as u32, v[2] as u32, v[3] as u32)
}

fn enc_obs(r: std::thread::Result<Result<Vec<u8>, Error>>) -> String {
    match r {
        Ok(Ok(v)) => format!("OK {}", hex(&v)),
        Ok(Err(e)) => format!("ERR{}", err_code(&e)),
        Err(_) => "PANIC".into(),
    }
}

/// A caller-supplied reader that serves its data in short pieces (sizes cycle through a list chosen
/// by the case) and reports Interrupted on some calls: exercises the crate's own default
/// `read_exact` (src/no_std.rs), which the slice reader never splits.
struct Pieces<'a> {
    data: &'a [u8],
    k: usize,
    calls: usize,
}

const PIECE_SIZES: [&[usize]; 4] = [&[1], &[1, 2, 3, 5, 8, 13], &[4096, 1, 7], &[3, 65536]];

impl<'a> Pieces<'a> {
    fn new(data: &'a [u8], k: usize) -> Self {
        Pieces { data, k, calls: 0 }
    }
    fn len(&self) -> usize {
        self.data.len()
    }
}

impl Read for Pieces<'_> {
    fn read(&mut self, buf: &mut [u8]) -> Result<usize, Error> {
        self.calls += 1;
        if self.calls % 5 == 3 {
            return Err(Error::Interrupted);
        }
        let sizes = PIECE_SIZES[self.k % PIECE_SIZES.len()];
        let n = sizes[self.calls % sizes.len()].min(buf.len()).min(self.data.len());
        buf[..n].copy_from_slice(&self.data[..n]);
        self.data = &self.data[n..];
        Ok(n)
    }
}

/// A caller-supplied sink that accepts only a few bytes per call and reports Interrupted on some
/// calls: exercises the crate's own default `write_all`.
struct ShortSink {
    out: Vec<u8>,
    k: usize,
    calls: usize,
}

impl Write for ShortSink {
    fn write(&mut self, buf: &[u8]) -> Result<usize, Error> {
        self.calls += 1;
        if self.calls % 5 == 3 {
            return Err(Error::Interrupted);
        }
        let sizes = PIECE_SIZES[self.k % PIECE_SIZES.len()];
        let n = sizes[self.calls % sizes.len()].min(buf.len());
        self.out.extend_from_slice(&buf[..n]);
        Ok(n)
    }
    fn flush(&mut self) -> Result<(), Error> {
        Ok(())
    }
}

/// The slice run and the run through the piecewise reader / short sink must observe the same.
fn both(plain: String, pieces: String) -> String {
    if plain == pieces { plain } else { format!("{} BUT-IN-PIECES {}", plain, pieces) }
}

fn sizes_of(s: &str) -> Vec<usize> {
    if s == "." { vec![] } else { s.split(',').map(|x| x.parse().unwrap()).collect() }
}

fn drive<R: Read>(r: &mut R, sizes: &[usize]) -> (Vec<u8>, Option<u32>) {
    let mut out = Vec::new();
    let mut i = 0usize;
    let mut buf = vec![0u8; sizes.iter().copied().max().unwrap_or(4096).max(1)];
    let mut calls = 0u64;
    loop {
        let sz = if sizes.is_empty() { 4096 } else { sizes[i % sizes.len()] };
        i += 1;
        calls += 1;
        if calls > 50_000_000 {
            return (out, Some(99));
        }
        match r.read(&mut buf[..sz]) {
            Ok(n) => {
                if sz > 0 && n == 0 {
                    return (out, None);
                }
                out.extend_from_slice(&buf[..n]);
                if out.len() > (1 << 26) {
                    return (out, Some(98));
                }
            }
            Err(e) => return (out, Some(err_code(&e))),
        }
    }
}

fn observe<'a, R: Read>(ctor: impl FnOnce() -> Result<R, Error>, sizes: &[usize], left: impl Fn(R) -> usize) -> String {
    catch_unwind(AssertUnwindSafe(|| match ctor() {
        Err(e) => format!("CERR{}", err_code(&e)),
        Ok(mut rd) => {
            let (out, err) = drive(&mut rd, sizes);
            match err {
                None => format!("END {} {}", hex(&out), left(rd)),
                Some(c) => format!("ERR{} {}", c, hex(&out)),
            }
        }
    }))
    .unwrap_or_else(|_| "PANIC".to_string())
}

fn exec(k: usize, a: &[&str]) -> String {
    // the bias variants of the twins area: the bias hook does not exist without std, the bytes must not depend on it
    let (cmd, a): (&str, &[&str]) = match a[0] {
        "lzma1encb" => ("lzma1enc", &a[1..]),
        "lzma2encb" => ("lzma2enc", &a[1..]),
        c => (c, a),
    };
    match cmd {
        "lzma1enc" => {
            let preset = if a[3] == "none" { None } else { Some(unhex(a[3])) };
            let (o, ..) = opts(a[1], preset);
            let variant: u32 = a[2].parse().unwrap();
            let parts = unhex_parts(a[4]);
            let total: usize = parts.iter().map(|p| p.len()).sum();
            let (header, marker, expected) = match variant {
                0 => (true, true, None),
                1 => (true, false, Some(total as u64)),
                2 => (false, true, None),
                _ => (false, false, None),
            };
            let plain = enc_obs(catch_unwind(AssertUnwindSafe(|| {
                let mut w = LZMAWriter::new(Vec::new(), &o, header, marker, expected)?;
                for p in &parts {
                    w.write_all(p)?;
                }
                w.finish()
            })));
            let short = enc_obs(catch_unwind(AssertUnwindSafe(|| {
                let mut w = LZMAWriter::new(ShortSink { out: Vec::new(), k, calls: 0 }, &o, header, marker, expected)?;
                for p in &parts {
                    w.write_all(p)?;
                }
                w.finish().map(|s| s.out)
            })));
            both(plain, short)
        }
        "lzma2enc" => {
            let preset = if a[3] == "none" { None } else { Some(unhex(a[3])) };
            let (o, ..) = opts(a[1], preset);
            let chunk: u64 = a[2].parse().unwrap();
            let parts = unhex_parts(a[4]);
            let flushes: Vec<usize> = if a[5] == "." { vec![] } else { a[5].split(',').map(|x| x.parse().unwrap()).collect() };
            let plain = enc_obs(catch_unwind(AssertUnwindSafe(|| {
                let mut opt = LZMA2Options::default();
                opt.lzma_options = o.clone();
                opt.chunk_size = NonZeroU64::new(chunk);
                let mut w = LZMA2Writer::new(Vec::new(), opt);
                for (i, p) in parts.iter().enumerate() {
                    w.write_all(p)?;
                    if flushes.contains(&i) {
                        w.flush()?;
                    }
                }
                w.finish()
            })));
            let short = enc_obs(catch_unwind(AssertUnwindSafe(|| {
                let mut opt = LZMA2Options::default();
                opt.lzma_options = o.clone();
                opt.chunk_size = NonZeroU64::new(chunk);
                let mut w = LZMA2Writer::new(ShortSink { out: Vec::new(), k, calls: 0 }, opt);
                for (i, p) in parts.iter().enumerate() {
                    w.write_all(p)?;
                    if flushes.contains(&i) {
                        w.flush()?;
                    }
                }
                w.finish().map(|s| s.out)
            })));
            both(plain, short)
        }
        "lzma1_hdr" => {
            let ml: u32 = a[1].parse().unwrap();
            let stream = unhex(a[2]);
            both(
                observe(|| LZMAReader::new_mem_limit(&stream[..], ml, None), &sizes_of(a[3]), |r| r.into_inner().len()),
                observe(|| LZMAReader::new_mem_limit(Pieces::new(&stream, k), ml, None), &sizes_of(a[3]), |r| r.into_inner().len()),
            )
        }
        "lzma1_raw" => {
            let u: u64 = if a[1] == "-1" { u64::MAX } else { a[1].parse().unwrap() };
            let (lc, lp, pb, d): (u32, u32, u32, u32) = (a[2].parse().unwrap(), a[3].parse().unwrap(), a[4].parse().unwrap(), a[5].parse().unwrap());
            let pre = if a[6] == "none" { None } else { Some(unhex(a[6])) };
            let stream = unhex(a[7]);
            both(
                observe(|| LZMAReader::new(&stream[..], u, lc, lp, pb, d, pre.as_deref()), &sizes_of(a[8]), |r| r.into_inner().len()),
                observe(|| LZMAReader::new(Pieces::new(&stream, k), u, lc, lp, pb, d, pre.as_deref()), &sizes_of(a[8]), |r| r.into_inner().len()),
            )
        }
        "lzma1_props" => {
            let u: u64 = if a[1] == "-1" { u64::MAX } else { a[1].parse().unwrap() };
            let (props, d): (u8, u32) = (a[2].parse().unwrap(), a[3].parse().unwrap());
            let pre = if a[4] == "none" { None } else { Some(unhex(a[4])) };
            let stream = unhex(a[5]);
            both(
                observe(|| LZMAReader::new_with_props(&stream[..], u, props, d, pre.as_deref()), &sizes_of(a[6]), |r| r.into_inner().len()),
                observe(|| LZMAReader::new_with_props(Pieces::new(&stream, k), u, props, d, pre.as_deref()), &sizes_of(a[6]), |r| r.into_inner().len()),
            )
        }
        "lzma2" => {
            let d: u32 = a[1].parse().unwrap();
            let pre = if a[2] == "none" { None } else { Some(unhex(a[2])) };
            let stream = unhex(a[3]);
            both(
                observe(|| Ok(LZMA2Reader::new(&stream[..], d, pre.as_deref())), &sizes_of(a[4]), |r| r.into_inner().len()),
                observe(|| Ok(LZMA2Reader::new(Pieces::new(&stream, k), d, pre.as_deref())), &sizes_of(a[4]), |r| r.into_inner().len()),
            )
        }
        _ => "SKIP".into(),
    }
}

fn main() {
    std::panic::set_hook(Box::new(|_| {}));
    let args: Vec<String> = std::env::args().collect();
    if args.len() < 4 || args[1] != "exec" {
        eprintln!("usage: lzverif-nostd exec <cases.txt> <outdir>");
        std::process::exit(2);
    }
    let text = std::fs::read_to_string(&args[2]).unwrap();
    let lines: Arc<Vec<String>> = Arc::new(text.lines().map(|l| l.to_string()).filter(|l| !l.trim().is_empty()).collect());
    let results: Arc<Vec<Mutex<String>>> = Arc::new((0..lines.len()).map(|_| Mutex::new(String::new())).collect());
    let next = Arc::new(AtomicUsize::new(0));
    let mut hs = Vec::new();
    for _ in 0..16 {
        let (lines, results, next) = (lines.clone(), results.clone(), next.clone());
        hs.push(std::thread::Builder::new().stack_size(64 << 20).spawn(move || loop {
            let i = next.fetch_add(1, Ordering::SeqCst);
            if i >= lines.len() {
                break;
            }
            let toks: Vec<&str> = lines[i].split(' ').collect();
            let r = catch_unwind(AssertUnwindSafe(|| exec(i, &toks[1..]))).unwrap_or_else(|_| "HARNESS-PANIC".into());
            *results[i].lock().unwrap() = format!("{} {}", toks[0], r);
        }).unwrap());
    }
    for h in hs {
        h.join().unwrap();
    }
    std::fs::create_dir_all(&args[3]).unwrap();
    let mut out = String::new();
    for r in results.iter() {
        out.push_str(&r.lock().unwrap());
        out.push('\n');
    }
    std::fs::write(format!("{}/impl.txt", args[3]), out).unwrap();
}
